//go:build verif

package sessions

import "github.com/mdzio/go-mqtt/message"

// C13: an ack queue is a FIFO of in-flight requests, released on the final ack.
// H13_*: ONE operation from an ARBITRARY queue state that satisfies the
// representation invariant (DESIGN.md A.4); the invariant is re-established
// afterwards, so the step is inductive and covers histories of any length.

type vrtEnt struct {
	id    uint16
	typ   byte
	state byte
	msg   []byte
	ack   []byte
}

func vrtStateOK(s byte) bool {
	ok := s == 0
	for _, v := range []byte{4, 5, 6, 7, 9, 11} {
		ok = vrtOr(ok, s == v)
	}
	return ok
}

func vrtTerminal(s byte) bool {
	ok := false
	for _, v := range []byte{4, 6, 7, 9, 11} {
		ok = vrtOr(ok, s == v)
	}
	return ok
}

// vrtArbitraryQueue builds an arbitrary valid queue of ring size S and its abstraction.
func vrtArbitraryQueue() (*Ackqueue, []vrtEnt) {
	S := 1 << uint(vrtChoice("logsize", vrtBound("N13logsizes", 2))+1) // 2, 4, (8)
	head := vrtChoice("head", S)
	count := vrtChoice("count", S+1)
	aq := newAckqueue(S)
	aq.head = int64(head)
	aq.count = int64(count)
	aq.tail = int64((head + count) & (S - 1))
	var abs []vrtEnt
	for i := 0; i < count; i++ {
		e := vrtEnt{id: vrtUint16("id"), typ: vrtByte("mtype"), state: vrtByte("state")}
		vrtAssume(vrtOr(e.typ == 3, vrtOr(e.typ == 8, e.typ == 10)))
		vrtAssume(vrtStateOK(e.state))
		for _, o := range abs {
			vrtAssume(o.id != e.id)
		}
		e.msg = vrtBytesN("msgbuf", 3)
		if e.state != 0 {
			e.ack = vrtBytesN("ackbuf", 2)
		}
		idx := int64((head + i) & (S - 1))
		// the queue's own buffers (with spare capacity, as a reused allocation would have);
		// the model keeps its own copies
		qmsg := append(make([]byte, 0, 24), e.msg...)
		var qack []byte
		if e.state != 0 {
			qack = append(make([]byte, 0, 8), e.ack...)
		}
		aq.ring[idx] = AckMsg{Mtype: message.Type(e.typ), State: message.Type(e.state), Pktid: e.id, Msgbuf: qmsg, Ackbuf: qack}
		aq.emap[e.id] = idx
		abs = append(abs, e)
	}
	return aq, abs
}

// vrtCheckQueue: representation invariant + abstraction equals want.
func vrtCheckQueue(aq *Ackqueue, want []vrtEnt) {
	size := int64(len(aq.ring))
	inv := vrtAnd(aq.size == size, aq.mask == size-1)
	inv = vrtAnd(inv, size&(size-1) == 0)
	inv = vrtAnd(inv, vrtAnd(aq.head >= 0, aq.head < size))
	inv = vrtAnd(inv, aq.tail == (aq.head+aq.count)&aq.mask)
	vrtAssert("C13.inv_cursors", inv)
	vrtAssert("C13.count", aq.count == int64(len(want)))
	if aq.count != int64(len(want)) {
		return
	}
	vrtAssert("C13.inv_index_size", len(aq.emap) == len(want))
	for i, w := range want {
		idx := (aq.head + int64(i)) & aq.mask
		e := aq.ring[idx]
		ok := vrtAnd(e.Pktid == w.id, vrtAnd(byte(e.Mtype) == w.typ, byte(e.State) == w.state))
		vrtAssert("C13.entry_fields", ok)
		vrtAssert("C13.entry_request_bytes", vrtBytesEq(e.Msgbuf, w.msg))
		vrtAssert("C13.entry_ack_bytes", vrtBytesEq(e.Ackbuf, w.ack))
		at, found := aq.emap[w.id]
		vrtAssert("C13.inv_index", vrtAnd(found, at == idx))
	}
	// free slots are zero values
	for j := int64(len(want)); j < size; j++ {
		e := aq.ring[(aq.head+j)&aq.mask]
		vrtAssert("C13.inv_free_slot_zero", vrtAnd(vrtAnd(e.Mtype == 0, e.Pktid == 0), vrtAnd(len(e.Msgbuf) == 0, len(e.Ackbuf) == 0)))
	}
}

func vrtFind(abs []vrtEnt, id uint16) int {
	for i := range abs {
		if abs[i].id == id {
			return i
		}
	}
	return -1
}

// vrtRequest builds a request message of the chosen kind with a symbolic id and
// returns it with its wire image.
func vrtRequest(kind int, id uint16) (message.Message, byte) {
	switch kind {
	case 0, 1:
		// PUBLISH QoS 1 / 2, decoded from a buffer that is overwritten afterwards
		m := message.NewPublishMessage()
		m.SetTopic([]byte("t"))
		m.SetPayload([]byte{vrtByte("payload")})
		m.SetQoS(byte(kind + 1))
		m.SetDup(vrtBool("dup"))
		m.SetPacketID(id)
		return m, 3
	case 2:
		m := message.NewSubscribeMessage()
		m.AddTopic([]byte("t"), vrtByte("subqos")&1)
		m.SetPacketID(id)
		return m, 8
	default:
		m := message.NewUnsubscribeMessage()
		m.AddTopic([]byte("t"))
		m.SetPacketID(id)
		return m, 10
	}
}

func vrtWire(m message.Message) []byte {
	b := make([]byte, m.Len())
	n, err := m.Encode(b)
	vrtAssert("C13.harness_encode", vrtAnd(err == nil, n == len(b)))
	return b
}

func H13_wait() {
	aq, abs := vrtArbitraryQueue()
	id := vrtUint16("newid")
	vrtAssume(id != 0)
	kind := vrtChoice("kind", 4)
	m, typ := vrtRequest(kind, id)
	wire := vrtWire(m)
	// the request reaches the queue as a decoded message over a network buffer
	raw := append([]byte(nil), wire...)
	dm, _ := message.Type(typ).New()
	if _, err := dm.Decode(raw); err != nil {
		vrtAssert("C13.harness_decode", false)
		return
	}
	err := aq.Wait(dm, nil)
	vrtAssert("C13.wait_ok", err == nil)
	for i := range raw {
		raw[i] = 0xEE // the network buffer is reused
	}
	if vrtFind(abs, id) < 0 {
		abs = append(abs, vrtEnt{id: id, typ: typ, state: 0, msg: wire})
		vrtReach("C13.registered")
		if len(abs) > 2 && int64(len(aq.ring)) > 2 {
			vrtReach("C13.maybe_grown")
		}
	} else {
		vrtReach("C13.duplicate_id")
	}
	vrtCheckQueue(aq, abs)
	vrtObserve("wait", aq.count, aq.size)
}

func H13_wait_qos0_and_ping() {
	aq, abs := vrtArbitraryQueue()
	m := message.NewPublishMessage()
	m.SetTopic([]byte("t"))
	m.SetPayload([]byte("p"))
	vrtAssert("C13.qos0_refused", aq.Wait(m, nil) != nil)
	vrtAssert("C13.connack_refused", aq.Wait(message.NewConnackMessage(), nil) != nil)
	vrtCheckQueue(aq, abs)
	// ping slot
	vrtAssert("C13.ping_wait_ok", aq.Wait(message.NewPingreqMessage(), nil) == nil)
	vrtCheckQueue(aq, abs)
	vrtAssert("C13.ping_not_released_early", len(aq.Acked()) == vrtPrefix(abs))
	abs = abs[vrtPrefix(abs):]
	vrtAssert("C13.pingresp_ok", aq.Ack(message.NewPingrespMessage()) == nil)
	done := aq.Acked()
	vrtAssert("C13.ping_released_once", vrtAnd(len(done) == 1, len(aq.Acked()) == 0))
	if len(done) == 1 {
		vrtAssert("C13.ping_entry", vrtAnd(done[0].Mtype == message.PINGREQ, done[0].State == message.PINGRESP))
		vrtAssert("C13.ping_bytes", vrtAnd(vrtBytesEq(done[0].Msgbuf, []byte{0xC0, 0}), vrtBytesEq(done[0].Ackbuf, []byte{0xD0, 0})))
	}
	// a stray PINGRESP changes nothing
	vrtAssert("C13.stray_pingresp_ok", aq.Ack(message.NewPingrespMessage()) == nil)
	vrtAssert("C13.stray_pingresp_no_effect", len(aq.Acked()) == 0)
	vrtCheckQueue(aq, abs)
	vrtReach("C13.ping")
}

// vrtPrefix: length of the maximal terminal prefix (concretised).
func vrtPrefix(abs []vrtEnt) int {
	n := 0
	for n < len(abs) && vrtTerminal(abs[n].state) {
		n++
	}
	return n
}

func H13_ack() {
	aq, abs := vrtArbitraryQueue()
	id := vrtUint16("ackid")
	ackTypes := []byte{4, 5, 6, 7, 9, 11}
	typ := ackTypes[vrtChoice("acktype", len(ackTypes))]
	// the acknowledgement arrives as a decoded message over a network buffer
	var raw []byte
	if typ == 9 {
		raw = []byte{typ << 4, 3, byte(id >> 8), byte(id), vrtByte("retcode") & 0x83 & 0x82}
	} else {
		fl := byte(0)
		if typ == 6 {
			fl = 2
		}
		raw = []byte{typ<<4 | fl, 2, byte(id >> 8), byte(id)}
	}
	orig := append([]byte(nil), raw...)
	am, _ := message.Type(typ).New()
	if _, err := am.Decode(raw); err != nil {
		return // (return code outside 0,1,2,0x80 never reaches the queue)
	}
	err := aq.Ack(am)
	vrtAssert("C13.ack_ok", err == nil)
	for i := range raw {
		raw[i] = 0xEE
	}
	if i := vrtFind(abs, id); i >= 0 {
		abs[i].state = typ
		abs[i].ack = orig
		vrtReach("C13.acked_known")
	} else {
		vrtReach("C13.acked_unknown")
	}
	vrtCheckQueue(aq, abs)
	// the queue stays usable: its mutex was released on every path
	vrtAssert("C13.ack_wrong_type_refused", aq.Ack(message.NewConnackMessage()) != nil)
	vrtObserve("ack", aq.count)
}

func H13_ack_wrong_type() {
	aq, abs := vrtArbitraryQueue()
	m := message.NewConnackMessage()
	vrtAssert("C13.ack_wrong_type_refused", aq.Ack(m) != nil)
	vrtCheckQueue(aq, abs)
}

func H13_acked() {
	aq, abs := vrtArbitraryQueue()
	n := vrtPrefix(abs)
	done := aq.Acked()
	vrtAssert("C13.released_prefix_length", len(done) == n)
	if len(done) != n {
		return
	}
	for i := 0; i < n; i++ {
		ok := vrtAnd(done[i].Pktid == abs[i].id, vrtAnd(byte(done[i].Mtype) == abs[i].typ, byte(done[i].State) == abs[i].state))
		vrtAssert("C13.released_in_order", ok)
		vrtAssert("C13.released_request_bytes", vrtBytesEq(done[i].Msgbuf, abs[i].msg))
		vrtAssert("C13.released_ack_bytes", vrtBytesEq(done[i].Ackbuf, abs[i].ack))
	}
	if n > 0 {
		vrtReach("C13.released_some")
	}
	vrtCheckQueue(aq, abs[n:])
	// the caller keeps using what it was handed while new requests are registered
	// (the slot that was just freed is the next one to be filled)
	kept := make([]AckMsg, len(done))
	copy(kept, done)
	m, typ := vrtRequest(0, 0x7777)
	for _, e := range abs {
		vrtAssume(e.id != 0x7777)
	}
	wire := vrtWire(m)
	vrtAssert("C13.wait_ok", aq.Wait(m, nil) == nil)
	for i := 0; i < n; i++ {
		vrtAssert("C13.released_copy_stays_intact", vrtAnd(vrtBytesEq(kept[i].Msgbuf, abs[i].msg), vrtBytesEq(kept[i].Ackbuf, abs[i].ack)))
	}
	rest := append(append([]vrtEnt(nil), abs[n:]...), vrtEnt{id: 0x7777, typ: typ, msg: wire})
	vrtCheckQueue(aq, rest)
	// exactly once: nothing of the released prefix comes out again
	again := aq.Acked()
	vrtAssert("C13.released_once", len(again) == vrtPrefix(rest))
	vrtObserve("acked", n, aq.count)
}

// H13b: short histories from a fresh queue tie the invariant to reachable states.
func H13b_history() {
	aq := newAckqueue(2)
	var abs []vrtEnt
	K := vrtBound("N13ops", 4)
	for k := 0; k < K; k++ {
		switch vrtChoice("op", 3) {
		case 0:
			id := vrtUint16("id")
			vrtAssume(id != 0)
			m, typ := vrtRequest(0, id)
			wire := vrtWire(m)
			vrtAssert("C13.wait_ok", aq.Wait(m, nil) == nil)
			if vrtFind(abs, id) < 0 {
				abs = append(abs, vrtEnt{id: id, typ: typ, msg: wire})
			}
		case 1:
			id := vrtUint16("ackid")
			a := message.NewPubackMessage()
			a.SetPacketID(id)
			wire := vrtWire(a)
			vrtAssert("C13.ack_ok", aq.Ack(a) == nil)
			if i := vrtFind(abs, id); i >= 0 {
				abs[i].state, abs[i].ack = 4, wire
			}
		case 2:
			n := vrtPrefix(abs)
			done := aq.Acked()
			vrtAssert("C13.released_prefix_length", len(done) == n)
			for i := 0; i < n && i < len(done); i++ {
				vrtAssert("C13.released_in_order", done[i].Pktid == abs[i].id)
				vrtAssert("C13.released_request_bytes", vrtBytesEq(done[i].Msgbuf, abs[i].msg))
			}
			abs = abs[n:]
		}
	}
	vrtCheckQueue(aq, abs)
	vrtReach("C13.history")
}

// H13_wait_unencodable: a request that cannot be encoded (a QoS 1 PUBLISH
// without a topic name) is not registered: the queue is exactly what it was,
// its identifier stays free, and what is registered later is still released.
func H13_wait_unencodable() {
	aq, abs := vrtArbitraryQueue()
	id := vrtUint16("newid")
	vrtAssume(id != 0)
	vrtAssume(vrtFind(abs, id) < 0)
	m := message.NewPublishMessage()
	m.SetQoS(1)
	m.SetPacketID(id)
	buf := make([]byte, 16)
	if _, err := m.Encode(buf); err == nil {
		vrtAssert("C13.harness_unencodable", false)
		return
	}
	aq.Wait(m, nil)
	vrtCheckQueue(aq, abs)
	_, found := aq.emap[id]
	vrtAssert("C13.failed_registration_leaves_identifier_free", !found)
	vrtReach("C13.unencodable")
}

// H13c_ack_during_wait: the processor acknowledges a request (Ack) while the
// application registers the next one (Wait) on a full, wrapped ring - so the
// ring grows and every entry moves - under the exploring scheduler: in every
// interleaving at the queue's mutex operations the acknowledgement lands on
// the request with its identifier and the queue is the model's.
func H13c_ack_during_wait() {
	aq := newAckqueue(2)
	// a full ring whose head is at slot 1: entries a (slot 1), b (slot 0)
	ida, idb := uint16(5), uint16(6)
	ma, _ := vrtRequest(0, ida)
	mb, _ := vrtRequest(0, idb)
	wa, wb := vrtWire(ma), vrtWire(mb)
	aq.head, aq.tail, aq.count = 1, 1, 2
	aq.ring[1] = AckMsg{Mtype: 3, Pktid: ida, Msgbuf: append([]byte(nil), wa...)}
	aq.ring[0] = AckMsg{Mtype: 3, Pktid: idb, Msgbuf: append([]byte(nil), wb...)}
	aq.emap[ida], aq.emap[idb] = 1, 0
	which := vrtChoice("acked", 2)
	ackid := []uint16{ida, idb}[which]
	ack := message.NewPubackMessage()
	ack.SetPacketID(ackid)
	wack := vrtWire(ack)
	mc, _ := vrtRequest(0, 7)
	wc := vrtWire(mc)
	var e1, e2 error
	vrtGo(func() { e1 = aq.Ack(ack) })
	vrtGo(func() { e2 = aq.Wait(mc, nil) })
	vrtJoin()
	vrtAssert("C13.ack_ok", e1 == nil)
	vrtAssert("C13.wait_ok", e2 == nil)
	abs := []vrtEnt{{id: ida, typ: 3, msg: wa}, {id: idb, typ: 3, msg: wb}, {id: 7, typ: 3, msg: wc}}
	abs[which].state, abs[which].ack = 4, wack
	vrtCheckQueue(aq, abs)
	vrtReach("C13.ack_during_wait")
}

// H13p_history: the property through the queue's exported surface only (Wait / Ack / Acked and the
// exported fields of the entries handed back) - nothing here names an unexported field of the ring,
// so this harness keeps compiling (and deciding) when the representation is refactored; the step
// lemmas above, which build arbitrary ring states, are then skipped (REDUCED) instead of failing.
// Histories of N13ops operations from a queue of ring size 2 (so the third in-flight request grows
// the ring, and releases make it wrap): register a PUBLISH q1/q2 or a SUBSCRIBE, acknowledge any
// identifier with any of the six acknowledgement types, collect; then everything still in flight is
// driven to its final acknowledgement in reverse order and collected. Every collect must hand back
// exactly the model's terminal prefix, in order, with the original request and acknowledgement bytes.
func vrtAckFor(typ byte, id uint16) (message.Message, []byte) {
	var raw []byte
	if typ == 9 {
		raw = []byte{typ << 4, 3, byte(id >> 8), byte(id), 1}
	} else {
		fl := byte(0)
		if typ == 6 {
			fl = 2
		}
		raw = []byte{typ<<4 | fl, 2, byte(id >> 8), byte(id)}
	}
	orig := append([]byte(nil), raw...)
	am, _ := message.Type(typ).New()
	if _, err := am.Decode(raw); err != nil {
		vrtAssert("C13.harness_decode", false)
	}
	return am, orig
}

func vrtCollect(aq *Ackqueue, abs []vrtEnt) []vrtEnt {
	n := vrtPrefix(abs)
	done := aq.Acked()
	vrtAssert("C13.released_prefix_length", len(done) == n)
	for i := 0; i < n && i < len(done); i++ {
		ok := vrtAnd(done[i].Pktid == abs[i].id, vrtAnd(byte(done[i].Mtype) == abs[i].typ, byte(done[i].State) == abs[i].state))
		vrtAssert("C13.released_in_order", ok)
		vrtAssert("C13.released_request_bytes", vrtBytesEq(done[i].Msgbuf, abs[i].msg))
		vrtAssert("C13.released_ack_bytes", vrtBytesEq(done[i].Ackbuf, abs[i].ack))
	}
	if n > 0 {
		vrtReach("C13.released_some")
	}
	return abs[n:]
}

func H13p_history() {
	aq := newAckqueue(2)
	var abs []vrtEnt
	K := vrtBound("N13pops", 3)
	ackTypes := []byte{4, 5, 7} // (9 and 11 are used by the drain; 6 is covered by the step lemma H13_ack)
	if vrtChoice("prelude", 2) == 1 {
		// a concrete prelude leaves the head at the second slot of the ring with one request in flight, so
		// that two more registrations fill the ring across its end and the third grows it while wrapped
		m1, _ := vrtRequest(0, 0x0101)
		vrtAssert("C13.wait_ok", aq.Wait(m1, nil) == nil)
		a1, _ := vrtAckFor(4, 0x0101)
		vrtAssert("C13.ack_ok", aq.Ack(a1) == nil)
		vrtAssert("C13.released_prefix_length", len(aq.Acked()) == 1)
		m2, t2 := vrtRequest(1, 0x0102)
		w2 := vrtWire(m2)
		vrtAssert("C13.wait_ok", aq.Wait(m2, nil) == nil)
		abs = append(abs, vrtEnt{id: 0x0102, typ: t2, msg: w2})
	}
	for k := 0; k < K; k++ {
		switch vrtChoice("op", 3) {
		case 0:
			id := vrtUint16("id")
			vrtAssume(id != 0)
			kind := vrtChoice("kind", 3)
			m, typ := vrtRequest(kind, id)
			wire := vrtWire(m)
			raw := append([]byte(nil), wire...)
			dm, _ := message.Type(typ).New()
			if _, err := dm.Decode(raw); err != nil {
				vrtAssert("C13.harness_decode", false)
				return
			}
			vrtAssert("C13.wait_ok", aq.Wait(dm, nil) == nil)
			for i := range raw {
				raw[i] = 0xEE // the network buffer is reused
			}
			if vrtFind(abs, id) < 0 {
				abs = append(abs, vrtEnt{id: id, typ: typ, msg: wire})
				if len(abs) > 2 {
					vrtReach("C13.grown")
					if len(abs) == 3 && abs[0].id == 0x0102 {
						vrtReach("C13.grown_while_wrapped")
					}
				}
			}
		case 1:
			id := vrtUint16("ackid")
			typ := ackTypes[vrtChoice("acktype", len(ackTypes))]
			am, orig := vrtAckFor(typ, id)
			vrtAssert("C13.ack_ok", aq.Ack(am) == nil)
			if i := vrtFind(abs, id); i >= 0 {
				abs[i].state, abs[i].ack = typ, orig
			}
		case 2:
			abs = vrtCollect(aq, abs)
		}
	}
	// drain: final acknowledgements in reverse order of registration; nothing may come out before the head is done
	for i := len(abs) - 1; i >= 0; i-- {
		typ := byte(4)
		switch {
		case abs[i].typ == 8:
			typ = 9
		case abs[i].typ == 10:
			typ = 11
		case len(abs[i].msg) > 0 && abs[i].msg[0]&6 == 4:
			typ = 7
		}
		am, orig := vrtAckFor(typ, abs[i].id)
		vrtAssert("C13.ack_ok", aq.Ack(am) == nil)
		abs[i].state, abs[i].ack = typ, orig
		if i > 0 && !vrtTerminal(abs[0].state) {
			vrtAssert("C13.nothing_released_before_the_head", len(aq.Acked()) == 0)
		}
	}
	abs = vrtCollect(aq, abs)
	vrtAssert("C13.drained", len(abs) == 0)
	vrtAssert("C13.released_once", len(aq.Acked()) == 0)
	vrtReach("C13.history_public")
}

// H13p_many: the queue at the size a session really uses (16 slots) with many requests in flight: after a
// prelude of `pre` completed requests (so the head is not at slot 0) N requests are registered - the ring
// grows while wrapped at 16, 32, 64, 128 and 256 entries - and are acknowledged newest first or
// even-numbered first; nothing may be released before the oldest is acknowledged, then everything in
// registration order with its own request and ack bytes. The step lemmas (H13_*) decide rings of 2 and 4
// slots from an arbitrary state; this is the concrete long history the property's "hundreds of in-flight
// entries" asks for (round-8 changes C02-15 / C12-15 / C13-15 / C20-15: re-indexing on growth that is only
// wrong for entries stored before the head; round-7 change C13-14: a growth policy that leaves powers of
// two above 64 slots). One payload byte per request is symbolic.
// vrtPlainRequest: like vrtRequest, but nothing the executor has to fork on (one symbolic payload byte)
func vrtPlainRequest(kind int, id uint16) (message.Message, byte) {
	if kind == 2 {
		m := message.NewSubscribeMessage()
		m.AddTopic([]byte("t"), 1)
		m.SetPacketID(id)
		return m, 8
	}
	m := message.NewPublishMessage()
	m.SetTopic([]byte("t"))
	m.SetPayload([]byte{vrtByte("payload")})
	m.SetQoS(byte(kind + 1))
	m.SetPacketID(id)
	return m, 3
}

func H13p_many() {
	pres := []int{0, 3, 5, 17}
	pre := pres[vrtChoice("completed_before", len(pres))]
	sizes := []int{17, 33, 70, 130, 260}
	if vrtBound("N13many", 260) < 260 {
		sizes = sizes[:3]
	}
	N := sizes[vrtChoice("in_flight", len(sizes))]
	evensFirst := vrtBool("even_numbered_first")
	aq := newAckqueue(16)
	id := uint16(1)
	for i := 0; i < pre; i++ {
		m, _ := vrtPlainRequest(0, id)
		vrtAssert("C13.wait_ok", aq.Wait(m, nil) == nil)
		a, _ := vrtAckFor(4, id)
		vrtAssert("C13.ack_ok", aq.Ack(a) == nil)
		vrtAssert("C13.released_prefix_length", len(aq.Acked()) == 1)
		id++
	}
	var abs []vrtEnt
	for i := 0; i < N; i++ {
		kind := i % 3
		m, typ := vrtPlainRequest(kind, id)
		wire := vrtWire(m)
		vrtAssert("C13.wait_ok", aq.Wait(m, nil) == nil)
		abs = append(abs, vrtEnt{id: id, typ: typ, msg: wire})
		id++
	}
	vrtAssert("C13.many_count", aq.len() == N)
	ackOne := func(i int) {
		typ := byte(4)
		switch {
		case abs[i].typ == 8:
			typ = 9
		case abs[i].msg[0]&6 == 4:
			typ = 7
		}
		am, orig := vrtAckFor(typ, abs[i].id)
		vrtAssert("C13.ack_ok", aq.Ack(am) == nil)
		abs[i].state, abs[i].ack = typ, orig
	}
	if evensFirst {
		for i := 0; i < N; i += 2 {
			if i > 0 {
				ackOne(i)
			}
		}
		for i := 1; i < N; i += 2 {
			ackOne(i)
		}
	} else {
		for i := N - 1; i > 0; i-- {
			ackOne(i)
		}
	}
	vrtAssert("C13.nothing_released_before_the_oldest", len(aq.Acked()) == 0)
	ackOne(0)
	abs = vrtCollect(aq, abs)
	vrtAssert("C13.many_all_released", len(abs) == 0 && aq.len() == 0)
	vrtReach("C13.many")
}
