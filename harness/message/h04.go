//go:build verif

package message

// C04: decoders are total. One harness per packet type: arbitrary input of
// 0..N bytes with cap == len; no panic, 0 <= n <= len(input).


func vrtTotal(m Message, bound string, def int) {
	buf := vrtBytes("in", vrtBound(bound, def))
	n, err := m.Decode(buf)
	vrtAssert("C04.n_range", vrtAnd(n >= 0, n <= len(buf)))
	vrtObserve("decode", n, err)
	vrtReach("C04.returned")
}

func H04_connect()     { vrtTotal(NewConnectMessage(), "N04connect", 18) }
func H04_connack()     { vrtTotal(NewConnackMessage(), "N04", 10) }
func H04_publish()     { vrtTotal(NewPublishMessage(), "N04", 10) }
func H04_puback()      { vrtTotal(NewPubackMessage(), "N04", 10) }
func H04_pubrec()      { vrtTotal(NewPubrecMessage(), "N04", 10) }
func H04_pubrel()      { vrtTotal(NewPubrelMessage(), "N04", 10) }
func H04_pubcomp()     { vrtTotal(NewPubcompMessage(), "N04", 10) }
func H04_subscribe()   { vrtTotal(NewSubscribeMessage(), "N04", 10) }
func H04_suback()      { vrtTotal(NewSubackMessage(), "N04suback", 7) }
func H04_unsubscribe() { vrtTotal(NewUnsubscribeMessage(), "N04", 10) }
func H04_unsuback()    { vrtTotal(NewUnsubackMessage(), "N04", 10) }
func H04_pingreq()     { vrtTotal(NewPingreqMessage(), "N04", 10) }
func H04_pingresp()    { vrtTotal(NewPingrespMessage(), "N04", 10) }
func H04_disconnect()  { vrtTotal(NewDisconnectMessage(), "N04", 10) }
