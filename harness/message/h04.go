//go:build verif

package message

// C04: decoders are total. One harness per packet type: arbitrary input of
// 0..N bytes with cap == len; no panic, 0 <= n <= len(input).


func vrtTotal(m Message, bound string, def int) {
	buf := vrtBytes("in", vrtBound(bound, def))
	n, err := m.Decode(buf)
	vrtAssert("C04.n_range", vrtAnd(n >= 0, n <= len(buf)))
	vrtObserve("decode", n, err)
	vrtReach("C04.returned")
}

func H04_connect()     { vrtTotal(NewConnectMessage(), "N04connect", 18) }
func H04_connack()     { vrtTotal(NewConnackMessage(), "N04", 10) }
func H04_publish()     { vrtTotal(NewPublishMessage(), "N04", 10) }
func H04_puback()      { vrtTotal(NewPubackMessage(), "N04", 10) }
func H04_pubrec()      { vrtTotal(NewPubrecMessage(), "N04", 10) }
func H04_pubrel()      { vrtTotal(NewPubrelMessage(), "N04", 10) }
func H04_pubcomp()     { vrtTotal(NewPubcompMessage(), "N04", 10) }
func H04_subscribe()   { vrtTotal(NewSubscribeMessage(), "N04", 10) }
func H04_suback()      { vrtTotal(NewSubackMessage(), "N04suback", 7) }
func H04_unsubscribe() { vrtTotal(NewUnsubscribeMessage(), "N04", 10) }
func H04_unsuback()    { vrtTotal(NewUnsubackMessage(), "N04", 10) }
func H04_pingreq()     { vrtTotal(NewPingreqMessage(), "N04", 10) }
func H04_pingresp()    { vrtTotal(NewPingrespMessage(), "N04", 10) }
func H04_disconnect()  { vrtTotal(NewDisconnectMessage(), "N04", 10) }

// C04 second half: every well-formed packet (reference decoder accepts the
// exact frame) is accepted by the library with the same fields and size.
func vrtAccept(typ byte, bound string, def int) {
	buf := vrtBytes("in", vrtBound(bound, def))
	vrtAssume(len(buf) >= 2)
	vrtAssume(buf[0]>>4 == typ)
	p, n, ok := specDecode(buf)
	if !ok {
		return
	}
	vrtAssume(n == len(buf))
	vrtReach("C04.wellformed")
	m := vrtNewOf(typ)
	n2, err := m.Decode(buf)
	vrtAssert("C04.accepts_wellformed", err == nil)
	if err != nil {
		return
	}
	vrtAssert("C04.accept_size", n2 == n)
	vrtAssert("C04.accept_fields", vrtFieldsEq(m, &p))
	vrtObserve("accept", n2)
}

func H04a_connect()     { vrtAccept(1, "N04aconnect", 18) }
func H04a_connack()     { vrtAccept(2, "N04a", 10) }
func H04a_publish()     { vrtAccept(3, "N04a", 10) }
func H04a_puback()      { vrtAccept(4, "N04a", 10) }
func H04a_pubrec()      { vrtAccept(5, "N04a", 10) }
func H04a_pubrel()      { vrtAccept(6, "N04a", 10) }
func H04a_pubcomp()     { vrtAccept(7, "N04a", 10) }
func H04a_subscribe()   { vrtAccept(8, "N04a", 10) }
func H04a_suback()      { vrtAccept(9, "N04asuback", 7) }
func H04a_unsubscribe() { vrtAccept(10, "N04a", 10) }
func H04a_unsuback()    { vrtAccept(11, "N04a", 10) }
func H04a_pingreq()     { vrtAccept(12, "N04a", 10) }
func H04a_pingresp()    { vrtAccept(13, "N04a", 10) }
func H04a_disconnect()  { vrtAccept(14, "N04a", 10) }
