//go:build verif

package message

// C04: decoders are total. One harness per packet type: arbitrary input of
// 0..N bytes with cap == len; no panic, 0 <= n <= len(input).


func vrtTotal(m Message, bound string, def int) {
	buf := vrtBytes("in", vrtBound(bound, def))
	n, err := m.Decode(buf)
	vrtAssert("C04.n_range", vrtAnd(n >= 0, n <= len(buf)))
	vrtObserve("decode", n, err)
	vrtReach("C04.returned")
}

func H04_connect()     { vrtTotal(NewConnectMessage(), "N04connect", 18) }
func H04_connack()     { vrtTotal(NewConnackMessage(), "N04", 10) }
func H04_publish()     { vrtTotal(NewPublishMessage(), "N04", 10) }
func H04_puback()      { vrtTotal(NewPubackMessage(), "N04", 10) }
func H04_pubrec()      { vrtTotal(NewPubrecMessage(), "N04", 10) }
func H04_pubrel()      { vrtTotal(NewPubrelMessage(), "N04", 10) }
func H04_pubcomp()     { vrtTotal(NewPubcompMessage(), "N04", 10) }
func H04_subscribe()   { vrtTotal(NewSubscribeMessage(), "N04", 10) }
func H04_suback()      { vrtTotal(NewSubackMessage(), "N04suback", 7) }
func H04_unsubscribe() { vrtTotal(NewUnsubscribeMessage(), "N04", 10) }
func H04_unsuback()    { vrtTotal(NewUnsubackMessage(), "N04", 10) }
func H04_pingreq()     { vrtTotal(NewPingreqMessage(), "N04", 10) }
func H04_pingresp()    { vrtTotal(NewPingrespMessage(), "N04", 10) }
func H04_disconnect()  { vrtTotal(NewDisconnectMessage(), "N04", 10) }

// C04 second half: every well-formed packet (reference decoder accepts the
// exact frame) is accepted by the library with the same fields and size.
func vrtAccept(typ byte, bound string, def int) {
	buf := vrtBytes("in", vrtBound(bound, def))
	vrtAssume(len(buf) >= 2)
	vrtAssume(buf[0]>>4 == typ)
	p, n, ok := specDecode(buf)
	if !ok {
		return
	}
	vrtAssume(n == len(buf))
	vrtReach("C04.wellformed")
	m := vrtNewOf(typ)
	n2, err := m.Decode(buf)
	vrtAssert("C04.accepts_wellformed", err == nil)
	if err != nil {
		return
	}
	vrtAssert("C04.accept_size", n2 == n)
	vrtAssert("C04.accept_fields", vrtFieldsEq(m, &p))
	vrtObserve("accept", n2)
}

func H04a_connect()     { vrtAccept(1, "N04aconnect", 18) }
func H04a_connack()     { vrtAccept(2, "N04a", 10) }
func H04a_publish()     { vrtAccept(3, "N04a", 10) }
func H04a_puback()      { vrtAccept(4, "N04a", 10) }
func H04a_pubrec()      { vrtAccept(5, "N04a", 10) }
func H04a_pubrel()      { vrtAccept(6, "N04a", 10) }
func H04a_pubcomp()     { vrtAccept(7, "N04a", 10) }
func H04a_subscribe()   { vrtAccept(8, "N04a", 10) }
func H04a_suback()      { vrtAccept(9, "N04asuback", 7) }
func H04a_unsubscribe() { vrtAccept(10, "N04a", 10) }
func H04a_unsuback()    { vrtAccept(11, "N04a", 10) }
func H04a_pingreq()     { vrtAccept(12, "N04a", 10) }
func H04a_pingresp()    { vrtAccept(13, "N04a", 10) }
func H04a_disconnect()  { vrtAccept(14, "N04a", 10) }

// H04b: acceptance at the sizes where the remaining-length field grows
// (127/128 and 16383/16384): a long concrete filler plus a short symbolic
// tail element, so that the packet's remaining length takes every value
// around the boundary; the library must decode the same fields and size as
// the reference decoder.
func vrtLargePacket(typ byte) *specPkt {
	targets := []int{126, 127, 128, 129, 130, 16382, 16383, 16384, 16385}
	R := targets[vrtChoice("remlen", len(targets))]
	L := 1 + vrtChoice("taillen", 3) // the last element: 1..3 bytes
	tail := vrtBytesN("tail", L)
	for _, b := range tail {
		vrtAssume(vrtAnd(b != '#', vrtAnd(b != '+', vrtAnd(b != '/', vrtAnd(b != 0, b < 0x80)))))
	}
	pad := func(n int) []byte {
		p := make([]byte, n)
		for i := range p {
			p[i] = 'a' + byte(i%26)
		}
		return p
	}
	switch typ {
	case 3: // PUBLISH QoS 1: 2+topic + 2 + payload
		return &specPkt{Typ: 3, Flags: 2, ID: 7, Topic: pad(R - 4 - L), Payload: tail}
	case 8: // SUBSCRIBE: 2 + (2+P+1) + (2+L+1)
		return &specPkt{Typ: 8, ID: 7, Topics: [][]byte{pad(R - 8 - L), tail}, QoS: []byte{1, 2}}
	case 9: // SUBACK: 2 + R-2 return codes
		codes := make([]byte, R-2)
		for i := range codes {
			codes[i] = byte(i % 3)
		}
		codes[len(codes)-1] = vrtIteByte(vrtBool("lastfail"), 0x80, 1)
		return &specPkt{Typ: 9, ID: 7, Codes: codes}
	default: // UNSUBSCRIBE: 2 + (2+P) + (2+L)
		return &specPkt{Typ: 10, ID: 7, Topics: [][]byte{pad(R - 6 - L), tail}}
	}
}

func vrtAcceptLarge(typ byte) {
	p := vrtLargePacket(typ)
	buf := specEncode(p)
	m := vrtNewOf(typ)
	n, err := m.Decode(buf)
	vrtAssert("C04.accepts_wellformed", err == nil)
	if err != nil {
		return
	}
	vrtAssert("C04.accept_size", n == len(buf))
	vrtAssert("C04.accept_fields", vrtFieldsEq(m, p))
	// and the way back: the decoded message encodes to the same bytes
	out := make([]byte, len(buf)+1)
	n2, err2 := m.Encode(out)
	vrtAssert("C04.large_reencode", err2 == nil && n2 == len(buf))
	vrtAssert("C04.large_len", m.Len() == len(buf))
	vrtReach("C04.large")
}

// H04b_truncated_large: the same packets with the last 1..4 bytes missing (cap == len): the
// announced remaining length exceeds what is there, so every decoder must refuse - without
// touching anything behind the input (round-8 change C04-16: a bound check in header.decode that
// is too lenient by the size of the length field only shows for remaining lengths >= 128).
func H04b_truncated_large() {
	types := []byte{3, 8, 9, 10}
	typ := types[vrtChoice("type", len(types))]
	p := vrtLargePacket(typ)
	full := specEncode(p)
	cut := 1 + vrtChoice("cut", 4)
	in := make([]byte, len(full)-cut)
	copy(in, full)
	m := vrtNewOf(typ)
	n, err := m.Decode(in)
	vrtAssert("C04.truncated_refused", err != nil)
	vrtAssert("C04.n_range", vrtAnd(n >= 0, n <= len(in)))
	vrtReach("C04.large")
}

func H04b_publish_large()     { vrtAcceptLarge(3) }
func H04b_subscribe_large()   { vrtAcceptLarge(8) }
func H04b_suback_large()      { vrtAcceptLarge(9) }
func H04b_unsubscribe_large() { vrtAcceptLarge(10) }

// H04b_connect_clientid: acceptance at the client identifier lengths around the limits that matter:
// 1..23 (every server MUST accept these: MQTT-3.1.3-5) and up to 32 printable ASCII characters (the
// library's documented policy, connect.go). The identifier's first, middle and last byte are
// symbolic printable characters, the rest is filler; with and without a user name behind it.
func H04b_connect_clientid() {
	lens := []int{1, 2, 22, 23, 24, 31, 32}
	L := lens[vrtChoice("idlen", len(lens))]
	id := make([]byte, L)
	for i := range id {
		id[i] = 'A' + byte(i%26)
	}
	for _, at := range []int{0, L / 2, L - 1} {
		c := vrtByte("idchar")
		vrtAssume(vrtAnd(c >= 0x20, c <= 0x7e))
		id[at] = c
	}
	p := &specPkt{Typ: 1, Proto: []byte("MQTT"), Level: 4, CFlags: 2, KeepAlive: vrtUint16("keepalive"), ClientID: id}
	if vrtBool("user") {
		p.CFlags |= 0x80
		p.User = []byte("u")
	}
	buf := specEncode(p)
	m := NewConnectMessage()
	n, err := m.Decode(buf)
	vrtAssert("C04.accepts_wellformed", err == nil)
	if err != nil {
		return
	}
	vrtAssert("C04.accept_size", n == len(buf))
	vrtAssert("C04.accept_fields", vrtFieldsEq(m, p))
	// the same identifier is accepted by the setter, and the message built from it encodes to the same bytes
	m2 := NewConnectMessage()
	vrtAssert("C04.setter_accepts_what_decode_accepts", m2.SetClientID(id) == nil)
	vrtReach("C04.large")
}
