//go:build verif

package message

// Field-by-field comparison of a library message with the reference packet.

func vrtNewOf(typ byte) Message {
	m, err := Type(typ).New()
	if err != nil {
		return nil
	}
	return m
}

func vrtAllEq(a [][]byte, b [][]byte) bool {
	if len(a) != len(b) {
		return false
	}
	ok := true
	for i := range a {
		ok = vrtAnd(ok, vrtBytesEq(a[i], b[i]))
	}
	return ok
}

// vrtFieldsEq: do the exported accessors of m report the fields of p?
func vrtFieldsEq(m Message, p *specPkt) bool {
	ok := byte(m.Type()) == p.Typ
	switch m := m.(type) {
	case *ConnectMessage:
		ok = vrtAnd(ok, m.Version() == p.Level)
		ok = vrtAnd(ok, m.KeepAlive() == p.KeepAlive)
		ok = vrtAnd(ok, m.CleanSession() == (p.CFlags&0x02 != 0))
		ok = vrtAnd(ok, m.WillFlag() == (p.CFlags&0x04 != 0))
		ok = vrtAnd(ok, m.WillQos() == (p.CFlags>>3)&3)
		ok = vrtAnd(ok, m.WillRetain() == (p.CFlags&0x20 != 0))
		ok = vrtAnd(ok, m.PasswordFlag() == (p.CFlags&0x40 != 0))
		ok = vrtAnd(ok, m.UsernameFlag() == (p.CFlags&0x80 != 0))
		ok = vrtAnd(ok, vrtBytesEq(m.ClientID(), p.ClientID))
		ok = vrtAnd(ok, vrtBytesEq(m.WillTopic(), p.WillTopic))
		ok = vrtAnd(ok, vrtBytesEq(m.WillMessage(), p.WillMsg))
		ok = vrtAnd(ok, vrtBytesEq(m.Username(), p.User))
		ok = vrtAnd(ok, vrtBytesEq(m.Password(), p.Pass))
	case *ConnackMessage:
		ok = vrtAnd(ok, m.SessionPresent() == p.SP)
		ok = vrtAnd(ok, byte(m.ReturnCode()) == p.RC)
	case *PublishMessage:
		ok = vrtAnd(ok, m.QoS() == (p.Flags>>1)&3)
		ok = vrtAnd(ok, m.Dup() == (p.Flags&0x08 != 0))
		ok = vrtAnd(ok, m.Retain() == (p.Flags&0x01 != 0))
		ok = vrtAnd(ok, vrtBytesEq(m.Topic(), p.Topic))
		ok = vrtAnd(ok, vrtBytesEq(m.Payload(), p.Payload))
		ok = vrtAnd(ok, m.PacketID() == p.ID)
	case *SubscribeMessage:
		ok = vrtAnd(ok, m.PacketID() == p.ID)
		ok = vrtAnd(ok, vrtAllEq(m.Topics(), p.Topics))
		ok = vrtAnd(ok, vrtBytesEq(m.Qos(), p.QoS))
	case *SubackMessage:
		ok = vrtAnd(ok, m.PacketID() == p.ID)
		ok = vrtAnd(ok, vrtBytesEq(m.ReturnCodes(), p.Codes))
	case *UnsubscribeMessage:
		ok = vrtAnd(ok, m.PacketID() == p.ID)
		ok = vrtAnd(ok, vrtAllEq(m.Topics(), p.Topics))
	case *PingreqMessage, *PingrespMessage, *DisconnectMessage:
	default:
		// PUBACK, PUBREC, PUBREL, PUBCOMP, UNSUBACK
		ok = vrtAnd(ok, m.PacketID() == p.ID)
	}
	return ok
}
