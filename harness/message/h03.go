//go:build verif

package message

// C03: the codec round-trips and is canonical.

func vrtB2b(b bool, v byte) byte { return vrtIteByte(b, v, 0) }

// vrtEncodeCheck: m was built through the API to carry the fields of exp.
func vrtEncodeCheck(m Message, exp *specPkt) {
	want := specEncode(exp)
	// Encode must not depend on an earlier Len() call (callers that encode into a scratch buffer of
	// sufficient size never ask for the length first): both orders
	if vrtBool("len_before_encode") {
		l := m.Len()
		vrtAssert("C03.len_is_wire_size", l == len(want))
	}
	buf := make([]byte, len(want)+2)
	n, err := m.Encode(buf)
	vrtAssert("C03.encode_ok", err == nil)
	if err != nil {
		return
	}
	vrtAssert("C03.encode_writes_len", vrtAnd(n == len(want), m.Len() == n))
	vrtAssert("C03.encode_bytes", vrtBytesEq(buf[:n], want))
	vrtObserve("enc", n, buf[:n])
	m2 := vrtNewOf(exp.Typ)
	n2, err2 := m2.Decode(want[:len(want):len(want)])
	vrtAssert("C03.decode_own_output", err2 == nil)
	if err2 != nil {
		return
	}
	vrtAssert("C03.decode_size", n2 == len(want))
	vrtAssert("C03.decode_fields", vrtFieldsEq(m2, exp))
	vrtReach("C03.roundtrip")
}

func H03a_header() {
	typ := vrtByte("typ")
	vrtAssume(vrtAnd(typ >= 1, typ <= 14))
	remlen := int32(vrtUint32("remlen"))
	var h header
	vrtAssert("C03.settype", h.SetType(Type(typ)) == nil)
	err := h.SetRemainingLength(remlen)
	inRange := vrtAnd(remlen >= 0, remlen <= 268435455)
	vrtAssert("C03.remlen_range", (err == nil) == inRange)
	if err != nil {
		return
	}
	want := []byte{typ<<4 | specFixedFlags(typ)}
	want = append(want, specVarint(int(remlen))...)
	buf := make([]byte, 8)
	n, err := h.encode(buf)
	vrtAssert("C03.header_encode_ok", err == nil)
	vrtAssert("C03.header_size", vrtAnd(n == len(want), h.msglen() == n))
	vrtAssert("C03.header_bytes", vrtBytesEq(buf[:n], want))
	vrtObserve("hdr", n, buf[:n])
	// decoding the bare header: length is recovered; accepted iff no body is announced
	var h2 header
	h2.SetType(Type(typ))
	n2, err2 := h2.decode(buf[:n:n])
	vrtAssert("C03.header_decode_len", h2.RemainingLength() == remlen)
	vrtAssert("C03.header_decode_accept", (err2 == nil) == (remlen == 0))
	vrtAssert("C03.header_decode_size", n2 == n)
	vrtReach("C03.header")
}

func H03b_connect() {
	S := vrtBound("N03str", 2)
	m := NewConnectMessage()
	ver := vrtByte("ver")
	vrtAssume(vrtOr(ver == 3, ver == 4))
	vrtAssert("C03.setversion", m.SetVersion(ver) == nil)
	clean := vrtBool("clean")
	m.SetCleanSession(clean)
	ka := vrtUint16("keepalive")
	m.SetKeepAlive(ka)
	cid := vrtBytes("cid", S)
	vrtAssume(specClientIDOK(cid))
	vrtAssume(vrtOr(len(cid) > 0, clean))
	vrtAssert("C03.setclientid", m.SetClientID(cid) == nil)
	exp := specPkt{Typ: 1, Level: ver, KeepAlive: ka, ClientID: cid}
	if ver == 4 {
		exp.Proto = []byte("MQTT")
	} else {
		exp.Proto = []byte("MQIsdp")
	}
	fl := vrtB2b(clean, 2)
	if vrtBool("will") {
		// a will is described through SetWillTopic / SetWillMessage (either order);
		// a non-empty topic makes it a will even when the will message is empty
		wt := vrtBytes("willtopic", S)
		vrtAssume(len(wt) > 0)
		wm := vrtBytes("willmsg", S)
		wq := vrtByte("willqos")
		vrtAssume(wq <= 2)
		wr := vrtBool("willretain")
		if vrtBool("willmsgfirst") {
			m.SetWillMessage(wm)
			m.SetWillTopic(wt)
		} else {
			m.SetWillTopic(wt)
			m.SetWillMessage(wm)
		}
		vrtAssert("C03.setwillqos", m.SetWillQos(wq) == nil)
		m.SetWillRetain(wr)
		exp.WillTopic, exp.WillMsg = wt, wm
		fl |= 4 | wq<<3 | vrtB2b(wr, 32)
	}
	if vrtBool("hasuser") {
		u := vrtBytes("user", S)
		vrtAssume(len(u) > 0)
		m.SetUsername(u)
		exp.User = u
		fl |= 0x80
		if vrtBool("haspass") {
			pw := vrtBytes("pass", S)
			vrtAssume(len(pw) > 0)
			m.SetPassword(pw)
			exp.Pass = pw
			fl |= 0x40
		}
	}
	exp.CFlags = fl
	vrtEncodeCheck(m, &exp)
}

func H03b_connack() {
	m := NewConnackMessage()
	sp := vrtBool("sp")
	rc := vrtByte("rc")
	vrtAssume(rc <= 5)
	m.SetSessionPresent(vrtBool("sp.before"))
	m.SetReturnCode(ConnackCode(vrtByte("rc.before") % 6))
	m.SetSessionPresent(sp)
	m.SetReturnCode(ConnackCode(rc))
	vrtEncodeCheck(m, &specPkt{Typ: 2, SP: sp, RC: rc})
}

func H03b_publish() {
	m := NewPublishMessage()
	topic := vrtBytes("topic", vrtBound("N03str", 2))
	valid := vrtAnd(len(topic) > 0, specNoWild(topic))
	err := m.SetTopic(topic)
	vrtAssert("C03.settopic_validates", (err == nil) == valid)
	if err != nil {
		return
	}
	payload := vrtBytes("payload", vrtBound("N03payload", 3))
	m.SetPayload(payload)
	q0 := vrtByte("qos.before")
	vrtAssume(q0 <= 2)
	m.SetQoS(q0)
	m.SetDup(vrtBool("dup.before"))
	m.SetRetain(vrtBool("retain.before"))
	q := vrtByte("qos")
	vrtAssume(q <= 2)
	vrtAssert("C03.setqos", m.SetQoS(q) == nil)
	dup, retain := vrtBool("dup"), vrtBool("retain")
	m.SetDup(dup)
	m.SetRetain(retain)
	exp := specPkt{Typ: 3, Flags: vrtB2b(dup, 8) | q<<1 | vrtB2b(retain, 1), Topic: topic, Payload: payload}
	if q > 0 {
		id := vrtUint16("id")
		vrtAssume(id != 0)
		m.SetPacketID(id)
		exp.ID = id
	}
	vrtEncodeCheck(m, &exp)
}

func vrtAckCheck(m Message, typ byte) {
	id := vrtUint16("id")
	vrtAssume(id != 0)
	m.(interface{ SetPacketID(uint16) }).SetPacketID(id)
	vrtEncodeCheck(m, &specPkt{Typ: typ, ID: id})
}

func H03b_puback()   { vrtAckCheck(NewPubackMessage(), 4) }
func H03b_pubrec()   { vrtAckCheck(NewPubrecMessage(), 5) }
func H03b_pubrel()   { vrtAckCheck(NewPubrelMessage(), 6) }
func H03b_pubcomp()  { vrtAckCheck(NewPubcompMessage(), 7) }
func H03b_unsuback() { vrtAckCheck(NewUnsubackMessage(), 11) }

func vrtDistinctFrom(t []byte, prev [][]byte) {
	for _, o := range prev {
		vrtAssume(vrtNot(vrtBytesEq(t, o)))
	}
}

func H03b_subscribe() {
	m := NewSubscribeMessage()
	id := vrtUint16("id")
	vrtAssume(id != 0)
	m.SetPacketID(id)
	exp := specPkt{Typ: 8, ID: id}
	k := vrtChoice("ntopics", vrtBound("N03topics", 3)) + 1
	for i := 0; i < k; i++ {
		t := vrtBytes("topic", vrtBound("N03str", 2))
		vrtAssume(len(t) > 0)
		vrtDistinctFrom(t, exp.Topics)
		q := vrtByte("qos")
		vrtAssume(q <= 2)
		vrtAssert("C03.addtopic", m.AddTopic(t, q) == nil)
		exp.Topics = append(exp.Topics, t)
		exp.QoS = append(exp.QoS, q)
	}
	vrtEncodeCheck(m, &exp)
}

func H03b_unsubscribe() {
	m := NewUnsubscribeMessage()
	id := vrtUint16("id")
	vrtAssume(id != 0)
	m.SetPacketID(id)
	exp := specPkt{Typ: 10, ID: id}
	k := vrtChoice("ntopics", vrtBound("N03utopics", 4)) + 1
	for i := 0; i < k; i++ {
		t := vrtBytes("topic", vrtBound("N03str", 2))
		vrtAssume(len(t) > 0)
		vrtDistinctFrom(t, exp.Topics)
		m.AddTopic(t)
		exp.Topics = append(exp.Topics, t)
	}
	vrtEncodeCheck(m, &exp)
}

func H03b_suback() {
	m := NewSubackMessage()
	id := vrtUint16("id")
	vrtAssume(id != 0)
	m.SetPacketID(id)
	codes := vrtBytes("codes", vrtBound("N03codes", 4))
	vrtAssume(len(codes) > 0)
	ok := true
	for _, c := range codes {
		ok = vrtAnd(ok, vrtOr(c <= 2, c == 0x80))
	}
	err := m.AddReturnCodes(codes)
	vrtAssert("C03.addreturncodes_validates", (err == nil) == ok)
	if !ok || err != nil {
		return
	}
	vrtEncodeCheck(m, &specPkt{Typ: 9, ID: id, Codes: codes})
}

func H03b_pingreq()    { vrtEncodeCheck(NewPingreqMessage(), &specPkt{Typ: 12}) }
func H03b_pingresp()   { vrtEncodeCheck(NewPingrespMessage(), &specPkt{Typ: 13}) }
func H03b_disconnect() { vrtEncodeCheck(NewDisconnectMessage(), &specPkt{Typ: 14}) }

// H03c: whatever a decoder accepts (exact frame) re-encodes to the same
// bytes; with a well-formed packet also after the message was marked
// modified (which forces the field-by-field encoder).
type vrtRemLen interface {
	SetRemainingLength(int32) error
	RemainingLength() int32
}

// vrtFrameAnyVarint: remaining length and header size, accepting non-minimal encodings of up to 4 bytes.
func vrtFrameAnyVarint(buf []byte) (remlen, hdr int, ok bool) {
	mult := 1
	for i := 1; i <= 4; i++ {
		if i >= len(buf) {
			return 0, 0, false
		}
		d := buf[i]
		remlen += int(d&0x7f) * mult
		mult *= 128
		if d&0x80 == 0 {
			return remlen, i + 1, true
		}
	}
	return 0, 0, false
}

func vrtReencode(typ byte, bound string, def int) {
	buf := vrtBytes("in", vrtBound(bound, def))
	vrtAssume(len(buf) >= 2)
	vrtAssume(buf[0]>>4 == typ)
	// the frame as any decoder reads it: a remaining length of 1..4 bytes, minimal or padded (0x84 0x00 for 4)
	remlen, hdr, fok := vrtFrameAnyVarint(buf)
	vrtAssume(fok)
	vrtAssume(hdr+remlen == len(buf))
	m := vrtNewOf(typ)
	n, err := m.Decode(buf)
	if err != nil {
		return
	}
	vrtAssume(n == len(buf))
	vrtReach("C03.accepted")
	vrtAssert("C03.len_after_decode", m.Len() == n)
	out := make([]byte, n+1)
	n2, err2 := m.Encode(out)
	vrtAssert("C03.reencode_ok", err2 == nil)
	if err2 != nil {
		return
	}
	vrtAssert("C03.reencode_size", n2 == n)
	vrtAssert("C03.reencode_bytes", vrtBytesEq(out[:n2], buf))
	vrtObserve("re", n2, out[:n2])
	if _, _, _, _, minimal := specFrame(buf); !minimal {
		return // (a padded remaining length cannot be reproduced from the fields)
	}
	p, _, ok := specDecode(buf)
	if !ok {
		return
	}
	if typ == 1 {
		// don't-care region (DESIGN A.2): user-name / password flag set with a zero-length
		// value - the library documents that it treats this 3.1-style form as "absent"
		vrtAssume(vrtNot(vrtAnd(p.CFlags&0x80 != 0, len(p.User) == 0)))
		vrtAssume(vrtNot(vrtAnd(p.CFlags&0x40 != 0, len(p.Pass) == 0)))
	}
	vrtReach("C03.wellformed")
	m.(vrtRemLen).SetRemainingLength(m.(vrtRemLen).RemainingLength())
	vrtAssert("C03.len_after_touch", m.Len() == n)
	out2 := make([]byte, n+1)
	n3, err3 := m.Encode(out2)
	vrtAssert("C03.reencode_fields_ok", err3 == nil)
	if err3 != nil {
		return
	}
	vrtAssert("C03.reencode_fields_size", n3 == n)
	vrtAssert("C03.reencode_fields_bytes", vrtBytesEq(out2[:n3], buf))
}

func H03c_connect()     { vrtReencode(1, "N03cconnect", 18) }
func H03c_connack()     { vrtReencode(2, "N03c", 9) }
func H03c_publish()     { vrtReencode(3, "N03c", 9) }
func H03c_puback()      { vrtReencode(4, "N03c", 9) }
func H03c_pubrec()      { vrtReencode(5, "N03c", 9) }
func H03c_pubrel()      { vrtReencode(6, "N03c", 9) }
func H03c_pubcomp()     { vrtReencode(7, "N03c", 9) }
func H03c_subscribe()   { vrtReencode(8, "N03csub", 12) }
func H03c_suback()      { vrtReencode(9, "N03csuback", 7) }
func H03c_unsubscribe() { vrtReencode(10, "N03csub", 12) }
func H03c_unsuback()    { vrtReencode(11, "N03c", 9) }
func H03c_pingreq()     { vrtReencode(12, "N03c", 9) }
func H03c_pingresp()    { vrtReencode(13, "N03c", 9) }
func H03c_disconnect()  { vrtReencode(14, "N03c", 9) }

// H03d: automatically numbered packets - one step from an arbitrary value of
// the process-wide counter covers every history of the counter.
func vrtAutoID(m Message, exp *specPkt) {
	gPacketID = vrtUint64("counter")
	buf := make([]byte, 32)
	n, err := m.Encode(buf)
	vrtAssert("C03.auto_encode_ok", err == nil)
	if err != nil {
		return
	}
	id := m.PacketID()
	vrtAssert("C03.auto_id_nonzero", id != 0)
	vrtAssert("C03.auto_len", n == m.Len())
	exp.ID = id
	want := specEncode(exp)
	vrtAssert("C03.auto_bytes", vrtBytesEq(buf[:n], want))
	vrtObserve("auto", n, buf[:n])
	vrtReach("C03.auto")
}

func H03d_publish() {
	m := NewPublishMessage()
	m.SetTopic([]byte("a"))
	m.SetPayload([]byte("p"))
	q := vrtByte("qos")
	vrtAssume(vrtAnd(q >= 1, q <= 2))
	m.SetQoS(q)
	vrtAutoID(m, &specPkt{Typ: 3, Flags: q << 1, Topic: []byte("a"), Payload: []byte("p")})
}

func H03d_subscribe() {
	m := NewSubscribeMessage()
	m.AddTopic([]byte("a"), 1)
	vrtAutoID(m, &specPkt{Typ: 8, Topics: [][]byte{[]byte("a")}, QoS: []byte{1}})
}

func H03d_unsubscribe() {
	m := NewUnsubscribeMessage()
	m.AddTopic([]byte("a"))
	vrtAutoID(m, &specPkt{Typ: 10, Topics: [][]byte{[]byte("a")}})
}

// H03f: decode, change one thing through the API, encode.
func H03f_subscribe_requalify() {
	buf := vrtBytes("in", vrtBound("N03f", 10))
	vrtAssume(len(buf) >= 2)
	vrtAssume(buf[0]>>4 == 8)
	p, n, ok := specDecode(buf)
	if !ok {
		return
	}
	vrtAssume(n == len(buf))
	m := NewSubscribeMessage()
	if _, err := m.Decode(buf); err != nil {
		return
	}
	i := vrtChoice("which", len(p.Topics))
	for j := 0; j < i; j++ {
		// (a decoded packet may list one filter twice; AddTopic then re-qualifies the first occurrence - which
		// occurrence is not the property's business)
		vrtAssume(!vrtBytesEq(p.Topics[j], p.Topics[i]))
	}
	q := vrtByte("newqos")
	vrtAssume(q <= 2)
	vrtAssert("C03.requalify_ok", m.AddTopic(p.Topics[i], q) == nil)
	p.QoS[i] = q
	want := specEncode(&p)
	out := make([]byte, len(want)+1)
	n2, err := m.Encode(out)
	vrtAssert("C03.requalify_encode_ok", err == nil)
	if err != nil {
		return
	}
	vrtAssert("C03.requalify_bytes", vrtBytesEq(out[:n2], want))
	vrtReach("C03.requalify")
}

func H03f_publish_setters() {
	buf := vrtBytes("in", vrtBound("N03f", 10))
	vrtAssume(len(buf) >= 2)
	vrtAssume(buf[0]>>4 == 3)
	p, n, ok := specDecode(buf)
	if !ok {
		return
	}
	vrtAssume(n == len(buf))
	vrtAssume(len(p.Payload) > 0)
	m := NewPublishMessage()
	if _, err := m.Decode(buf); err != nil {
		return
	}
	// what the broker does when it forwards: downgrade QoS, clear/restore retain
	q := vrtByte("newqos")
	vrtAssume(q <= 2)
	raised := (p.Flags>>1)&3 == 0 && q > 0 // a relay may also raise the QoS of a message it received
	vrtAssert("C03.setqos_ok", m.SetQoS(q) == nil)
	r := vrtBool("newretain")
	m.SetRetain(r)
	p.Flags = p.Flags&0x08 | q<<1 | vrtB2b(r, 1)
	if q == 0 {
		p.ID = 0
	} else if !raised && vrtBool("renumber") {
		// a decoded message sent on under a new identifier (bridging, re-publishing from a callback)
		nid := vrtUint16("newid")
		vrtAssume(nid != 0)
		m.SetPacketID(nid)
		p.ID = nid
		vrtAssert("C03.setters_packet_id", m.PacketID() == nid)
	}
	if raised {
		p.ID = 1 // (placeholder of the right size; the identifier is assigned when the message is encoded)
	}
	want := specEncode(&p)
	vrtAssert("C03.setters_len", m.Len() == len(want))
	out := make([]byte, len(want)+3)
	n2, err := m.Encode(out)
	vrtAssert("C03.setters_encode_ok", err == nil)
	if err != nil {
		return
	}
	if raised {
		vrtAssert("C03.auto_id_nonzero", m.PacketID() != 0)
		p.ID = m.PacketID()
		want = specEncode(&p)
	}
	vrtAssert("C03.setters_bytes", vrtBytesEq(out[:n2], want))
	vrtReach("C03.setters")
}

// H03e: remaining lengths at the varint boundaries, for every packet type whose
// length is not fixed: contents are concrete (a pattern), the sizes are what matters.
func vrtPattern(n int, seed byte) []byte {
	b := make([]byte, n)
	for i := range b {
		b[i] = 'a' + byte((i+int(seed))%23)
	}
	return b
}

func vrtBoundary() int {
	sizes := []int{127, 128, 16383, 16384}
	if vrtBound("N03huge", 0) == 1 {
		sizes = append(sizes, 2097151, 2097152)
	}
	return sizes[vrtChoice("remlen", len(sizes))]
}

func H03e_publish_boundary() {
	L := vrtBoundary()
	q := byte(vrtChoice("qos", 3))
	m := NewPublishMessage()
	topic := []byte("t/x")
	over := 2 + len(topic)
	if q > 0 {
		over += 2
	}
	payload := vrtPattern(L-over, 1)
	m.SetTopic(topic)
	m.SetPayload(payload)
	m.SetQoS(q)
	exp := specPkt{Typ: 3, Flags: q << 1, Topic: topic, Payload: payload}
	if q > 0 {
		m.SetPacketID(7)
		exp.ID = 7
	}
	vrtEncodeCheck(m, &exp)
}

func H03e_suback_boundary() {
	L := vrtBoundary()
	vrtAssume(L <= 16384)
	m := NewSubackMessage()
	m.SetPacketID(9)
	codes := make([]byte, L-2)
	for i := range codes {
		codes[i] = byte(i % 3)
	}
	vrtAssert("C03.addreturncodes_ok", m.AddReturnCodes(codes) == nil)
	vrtEncodeCheck(m, &specPkt{Typ: 9, ID: 9, Codes: codes})
}

func H03e_subscribe_boundary() {
	L := vrtBoundary()
	vrtAssume(L <= 16384)
	m := NewSubscribeMessage()
	m.SetPacketID(9)
	// two filters; the second one sized to reach the boundary
	t1 := []byte("a/+")
	t2 := vrtPattern(L-2-(2+len(t1)+1)-(2+1), 3)
	m.AddTopic(t1, 1)
	m.AddTopic(t2, 2)
	vrtEncodeCheck(m, &specPkt{Typ: 8, ID: 9, Topics: [][]byte{t1, t2}, QoS: []byte{1, 2}})
}

func H03e_unsubscribe_boundary() {
	L := vrtBoundary()
	vrtAssume(L <= 16384)
	m := NewUnsubscribeMessage()
	m.SetPacketID(9)
	t1 := []byte("a/+")
	t2 := vrtPattern(L-2-(2+len(t1))-2, 5)
	m.AddTopic(t1)
	m.AddTopic(t2)
	vrtEncodeCheck(m, &specPkt{Typ: 10, ID: 9, Topics: [][]byte{t1, t2}})
}

func H03e_connect_boundary() {
	L := vrtBoundary()
	vrtAssume(L <= 16384)
	m := NewConnectMessage()
	m.SetVersion(4)
	m.SetCleanSession(true)
	m.SetClientID([]byte("cid"))
	wt := []byte("will/t")
	fixed := 2 + 4 + 1 + 1 + 2 + (2 + 3) + (2 + len(wt)) + 2
	wm := vrtPattern(L-fixed, 7)
	m.SetWillTopic(wt)
	m.SetWillMessage(wm)
	m.SetWillQos(1)
	vrtEncodeCheck(m, &specPkt{Typ: 1, Proto: []byte("MQTT"), Level: 4, CFlags: 2 | 4 | 1<<3, ClientID: []byte("cid"), WillTopic: wt, WillMsg: wm})
}

// H03e_lpstring_max: length-prefixed strings at 0 / 1 / 65534 / 65535 bytes.
func H03e_lpstring_max() {
	sizes := []int{0, 1, 65534, 65535}
	n := sizes[vrtChoice("len", len(sizes))]
	s := vrtPattern(n, 2)
	buf := make([]byte, n+2)
	w, err := writeLPBytes(buf, s)
	vrtAssert("C03.lp_write", vrtAnd(err == nil, w == n+2))
	vrtAssert("C03.lp_prefix", vrtAnd(buf[0] == byte(n>>8), buf[1] == byte(n)))
	got, r, err2 := readLPBytes(buf)
	vrtAssert("C03.lp_read", vrtAnd(err2 == nil, vrtAnd(r == n+2, len(got) == n)))
	if n > 0 && len(got) == n {
		vrtAssert("C03.lp_content", vrtAnd(got[0] == s[0], got[n-1] == s[n-1]))
	}
	// one byte short must be refused, not panic
	if n > 0 {
		_, _, err3 := readLPBytes(buf[: n+1 : n+1])
		vrtAssert("C03.lp_short_refused", err3 != nil)
	}
	vrtReach("C03.lp")
}

// H03g: setter histories - every flag-like setter is called twice, first with an
// arbitrary earlier value; the encoding must depend on the last call only.
func H03g_connect_setter_history() {
	m := NewConnectMessage()
	m.SetVersion(4)
	m.SetClientID([]byte("c"))
	wt, wm := []byte("w"), []byte("m")
	m.SetWillTopic(wt)
	m.SetWillMessage(wm)
	before := vrtByte("before")
	q0 := before & 3
	vrtAssume(q0 <= 2)
	m.SetCleanSession(before&4 != 0)
	m.SetWillQos(q0)
	m.SetWillRetain(before&8 != 0)
	m.SetKeepAlive(vrtUint16("keepalive.before"))
	m.SetUsername([]byte("u"))
	m.SetPassword([]byte("p"))
	if before&16 != 0 {
		m.SetPassword(nil)
	}
	if before&32 != 0 {
		m.SetUsername(nil)
		m.SetPassword(nil)
	}
	// final values
	clean, wr := vrtBool("clean"), vrtBool("willretain")
	wq := vrtByte("willqos")
	vrtAssume(wq <= 2)
	ka := vrtUint16("keepalive")
	m.SetCleanSession(clean)
	vrtAssert("C03.setwillqos", m.SetWillQos(wq) == nil)
	m.SetWillRetain(wr)
	m.SetKeepAlive(ka)
	exp := specPkt{Typ: 1, Proto: []byte("MQTT"), Level: 4, KeepAlive: ka, ClientID: []byte("c"), WillTopic: wt, WillMsg: wm}
	exp.CFlags = vrtB2b(clean, 2) | 4 | wq<<3 | vrtB2b(wr, 32)
	if vrtBool("user") {
		m.SetUsername([]byte("uu"))
		exp.User = []byte("uu")
		exp.CFlags |= 0x80
		if vrtBool("pass") {
			m.SetPassword([]byte("pp"))
			exp.Pass = []byte("pp")
			exp.CFlags |= 0x40
		} else {
			m.SetPassword(nil)
		}
	} else {
		m.SetUsername(nil)
		m.SetPassword(nil)
	}
	vrtEncodeCheck(m, &exp)
}

// H12_auto_ids: two automatically numbered requests encoded one after the
// other, from an arbitrary value of the process-wide counter: both
// identifiers are non-zero and they differ (requests in flight together on
// one connection carry pairwise distinct identifiers - C12). One pair from an
// arbitrary counter value covers every history of the counter.
func H12_auto_ids() {
	gPacketID = vrtUint64("counter")
	mk := func(kind int) Message {
		switch kind {
		case 0:
			m := NewPublishMessage()
			m.SetTopic([]byte("a"))
			m.SetPayload([]byte("p"))
			m.SetQoS(1)
			return m
		case 1:
			m := NewSubscribeMessage()
			m.AddTopic([]byte("a"), 1)
			return m
		}
		m := NewUnsubscribeMessage()
		m.AddTopic([]byte("a"))
		return m
	}
	a := mk(vrtChoice("first", 3))
	b := mk(vrtChoice("second", 3))
	buf := make([]byte, 32)
	_, err1 := a.Encode(buf)
	_, err2 := b.Encode(buf)
	vrtAssert("C12.auto_encode_ok", err1 == nil && err2 == nil)
	vrtAssert("C12.auto_ids_nonzero", vrtAnd(a.PacketID() != 0, b.PacketID() != 0))
	vrtAssert("C12.auto_ids_distinct", a.PacketID() != b.PacketID())
	vrtObserve("ids", a.PacketID(), b.PacketID())
	vrtReach("C12.auto_ids")
}
