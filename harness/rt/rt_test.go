//go:build verif

package PKGNAME

// Native replay driver: runs harnesses on concrete vectors (solver models)
// and writes what happened, for counterexample confirmation and for
// translator validation of the symbolic engine.

import (
	"encoding/json"
	"fmt"
	"os"
	"runtime"
	"runtime/debug"
	"syscall"
	"testing"
	"time"
)

type vrtVector struct {
	Harness string            `json:"harness"`
	Model   map[string]uint64 `json:"model"`
	Sched   []int             `json:"sched"`
}

func vrtRunOne(v vrtVector) (res *vrtRun) {
	res = &vrtRun{vals: v.Model, used: map[string]int{}}
	if res.vals == nil {
		res.vals = map[string]uint64{}
	}
	h, ok := vrtHarnesses[v.Harness]
	if !ok {
		res.Outcome = "no-such-harness"
		return
	}
	done := make(chan struct{})
	go func() {
		defer close(done)
		res.sched = vrtNewSched(v.Sched)
		vrtS = res
		vrtGoroutineBase = runtime.NumGoroutine()
		defer func() {
			if r := recover(); r != nil {
				if af, ok := r.(vrtAssumeFailed); ok {
					res.Outcome = "assume-failed"
					res.Detail = af.what
					return
				}
				if to, ok := r.(vrtTimeout); ok {
					res.Outcome = "timeout"
					res.Detail = to.what
					return
				}
				res.Outcome = "panic"
				res.Detail = fmt.Sprint(r) + "\n" + string(debug.Stack())
			}
		}()
		h()
		res.Outcome = "ok"
	}()
	defer func() {
		if res.sched != nil {
			res.sched.mu.Lock()
			res.SchedTurn, res.SchedLen, res.Desync = res.sched.turn, len(res.sched.order), res.sched.desync
			if os.Getenv("VERIF_SCHED_DEBUG") != "" {
				res.Trace = append([]int(nil), res.sched.arrivals...)
			}
			res.sched.mu.Unlock()
		}
	}()
	select {
	case <-done:
	case <-time.After(vrtReplayTimeout):
		res.Outcome = "timeout"
		res.Detail = "harness did not finish (deadlock?)"
	}
	if os.Getenv("VERIF_SPINCHECK") != "" {
		// is a goroutine of the scenario still burning CPU now that the harness is over?
		time.Sleep(100 * time.Millisecond)
		c0 := vrtProcessCPU()
		time.Sleep(300 * time.Millisecond)
		res.SpinCPUms = int((vrtProcessCPU() - c0) / time.Millisecond)
	}
	return
}

func vrtProcessCPU() time.Duration {
	var ru syscall.Rusage
	if syscall.Getrusage(syscall.RUSAGE_SELF, &ru) != nil {
		return 0
	}
	return time.Duration(ru.Utime.Nano() + ru.Stime.Nano())
}

var vrtReplayTimeout = 8 * time.Second

func TestVerifReplay(t *testing.T) {
	in := os.Getenv("VERIF_VECTORS")
	out := os.Getenv("VERIF_RESULTS")
	if in == "" || out == "" {
		t.Skip("VERIF_VECTORS / VERIF_RESULTS not set")
	}
	b, err := os.ReadFile(in)
	if err != nil {
		t.Fatal(err)
	}
	var vs []vrtVector
	if err := json.Unmarshal(b, &vs); err != nil {
		t.Fatal(err)
	}
	var results []*vrtRun
	for _, v := range vs {
		r := vrtRunOne(v)
		results = append(results, r)
	}
	ob, _ := json.Marshal(results)
	if err := os.WriteFile(out, ob, 0o644); err != nil {
		t.Fatal(err)
	}
}
