//go:build verif

package PKGNAME

// Harness runtime, native side. The same calls are intercepted by the
// symbolic engine (engine/vrt.go); here they read the solver's assignment
// from the replay vector so that a counterexample (or any explored path) can
// be re-run against the natively compiled real code.

import (
	"bytes"
	"fmt"
	"io"
	"net"
	"reflect"
	"runtime"
	"strconv"
	"strings"
	"sync"
	"sync/atomic"
	"time"
)

type vrtAssumeFailed struct{ what string }

type vrtRun struct {
	vals     map[string]uint64
	used     map[string]int
	sched    *vrtSched
	Observes []string `json:"observes"`
	Reached  []string `json:"reached"`
	Failed   []string `json:"failed"`
	Outcome  string   `json:"outcome"`
	Detail   string   `json:"detail"`
	SchedTurn int     `json:"sched_turn"`
	SchedLen  int     `json:"sched_len"`
	Desync    bool    `json:"sched_desync"`
	Trace     []int   `json:"sched_trace,omitempty"`
	SpinCPUms int     `json:"spin_cpu_ms"`
}

var vrtS *vrtRun

func vrtVal(name string) uint64 {
	vrtS.used[name]++
	if k := vrtS.used[name]; k > 1 {
		name = fmt.Sprintf("%s#%d", name, k)
	}
	return vrtS.vals[name]
}

func vrtByte(name string) byte     { return byte(vrtVal(name)) }
func vrtUint16(name string) uint16 { return uint16(vrtVal(name)) }
func vrtUint32(name string) uint32 { return uint32(vrtVal(name)) }
func vrtUint64(name string) uint64 { return vrtVal(name) }
func vrtInt64(name string) int64   { return int64(vrtVal(name)) }
func vrtBool(name string) bool     { return vrtVal(name) != 0 }

func vrtInt(name string, lo, hi int) int {
	v := int(int64(vrtVal(name)))
	if v < lo || v > hi {
		panic(vrtAssumeFailed{"vrtInt " + name})
	}
	return v
}

func vrtChoice(name string, n int) int {
	v := int(int64(vrtVal(name)))
	if v < 0 || v >= n {
		panic(vrtAssumeFailed{"vrtChoice " + name})
	}
	return v
}

func vrtConcretize(v int) int { return v }

func vrtBound(name string, def int) int {
	if v, ok := vrtS.vals["$bound."+name]; ok {
		return int(v)
	}
	return def
}

func vrtBytes(name string, max int) []byte {
	n := int(vrtVal(name + ".len"))
	if n > max {
		panic(vrtAssumeFailed{"vrtBytes " + name})
	}
	b := make([]byte, n)
	for i := 0; i < max; i++ {
		v := byte(vrtVal(fmt.Sprintf("%s[%d]", name, i)))
		if i < n {
			b[i] = v
		}
	}
	return b[:n:n]
}

func vrtBytesL(name string, max int) []byte { return vrtBytes(name, max) }

func vrtArrayBytes(n int) []byte { return make([]byte, n) }

func vrtBytesN(name string, n int) []byte {
	b := make([]byte, n)
	for i := range b {
		b[i] = byte(vrtVal(fmt.Sprintf("%s[%d]", name, i)))
	}
	return b[:n:n]
}

func vrtAssume(c bool) {
	if !c {
		panic(vrtAssumeFailed{"vrtAssume"})
	}
}

func vrtAssert(name string, c bool) {
	if !c {
		vrtS.Failed = append(vrtS.Failed, name)
	}
}

func vrtReach(name string)          { vrtS.Reached = append(vrtS.Reached, name) }
func vrtAnd(a, b bool) bool          { return a && b }
func vrtOr(a, b bool) bool           { return a || b }
func vrtNot(a bool) bool             { return !a }
func vrtImplies(a, b bool) bool      { return !a || b }
func vrtSymbolic() bool              { return false }
func vrtNote(s string)               {}
func vrtIteInt(c bool, a, b int) int { if c { return a }; return b }
func vrtIteByte(c bool, a, b byte) byte { if c { return a }; return b }

func vrtBytesEq(a, b []byte) bool {
	if len(a) != len(b) {
		return false
	}
	for i := range a {
		if a[i] != b[i] {
			return false
		}
	}
	return true
}

func vrtObserve(name string, vals ...interface{}) {
	var sb strings.Builder
	sb.WriteString(name)
	for _, v := range vals {
		sb.WriteByte(' ')
		sb.WriteString(vrtRender(v))
	}
	vrtS.Observes = append(vrtS.Observes, sb.String())
}

func vrtRender(v interface{}) string {
	if v == nil {
		return "nil"
	}
	rv := reflect.ValueOf(v)
	switch rv.Kind() {
	case reflect.Bool:
		return fmt.Sprint(rv.Bool())
	case reflect.Int, reflect.Int8, reflect.Int16, reflect.Int32, reflect.Int64:
		return fmt.Sprint(rv.Int())
	case reflect.Uint, reflect.Uint8, reflect.Uint16, reflect.Uint32, reflect.Uint64, reflect.Uintptr:
		return fmt.Sprint(rv.Uint())
	case reflect.String:
		return fmt.Sprintf("x:%x", rv.String())
	case reflect.Slice:
		if rv.Type().Elem().Kind() == reflect.Uint8 {
			return fmt.Sprintf("x:%x", rv.Bytes())
		}
	}
	if _, ok := v.(error); ok {
		return "err"
	}
	return "?"
}

// ---------------------------------------------------------------------------
// Threads and forced schedules. The engine records, for every scheduling
// point it passed in instrumentable repo code, which thread passed it; the
// replay build overlays instrumented copies of the repo files that call
// vrtPoint() at the same places, and vrtPoint lets a goroutine continue only
// when the script says it is its turn. A thread that does not come back to a
// point within vrtBlockedAfter is taken to be blocked inside a real
// primitive, exactly as it was in the engine's run.

type vrtTimeout struct{ what string }

type vrtSched struct {
	mu        sync.Mutex
	order     []int
	turn      int
	running   int
	lastGrant time.Time
	ids       map[int64]int
	next      int
	wg        sync.WaitGroup
	desync    bool
	arrivals  []int // thread ids in the order they arrived at points (debugging)
}

const (
	vrtBlockedAfter = 15 * time.Millisecond
	vrtGiveUpAfter  = 3 * time.Second
	vrtJoinTimeout  = 4 * time.Second
)

func vrtGoid() int64 {
	var buf [64]byte
	n := runtime.Stack(buf[:], false)
	f := bytes.Fields(buf[:n])
	id, _ := strconv.ParseInt(string(f[1]), 10, 64)
	return id
}

func vrtNewSched(order []int) *vrtSched {
	s := &vrtSched{order: order, running: -1, ids: map[int64]int{}, next: 1}
	s.ids[vrtGoid()] = 0
	return s
}

func vrtGo(f func()) { vrtSpawn(f, true) }

// vrtGoLib replaces the go statements of the instrumented library code: the new
// goroutine gets its logical thread id, but vrtJoin does not wait for it.
func vrtGoLib(f func()) { vrtSpawn(f, false) }

func vrtSpawn(f func(), joinable bool) {
	s := vrtS.sched
	if joinable {
		s.wg.Add(1)
	}
	if len(s.order) == 0 {
		// no schedule to follow: a plain goroutine, without any bookkeeping that would
		// order it against its siblings (the race detector must see what the engine sees)
		go func() {
			if joinable {
				defer s.wg.Done()
			}
			f()
		}()
		return
	}
	s.mu.Lock()
	id := s.next
	s.next++
	s.mu.Unlock()
	go func() {
		s.mu.Lock()
		s.ids[vrtGoid()] = id
		s.mu.Unlock()
		if joinable {
			defer s.wg.Done()
		}
		defer func() {
			s.mu.Lock()
			if s.running == id {
				s.running = -1
			}
			s.mu.Unlock()
		}()
		f()
	}()
}

func vrtJoin() {
	s := vrtS.sched
	// the joining thread is blocked as far as the schedule is concerned
	s.mu.Lock()
	if id, ok := s.ids[vrtGoid()]; ok && s.running == id {
		s.running = -1
	}
	s.mu.Unlock()
	done := make(chan struct{})
	go func() { s.wg.Wait(); close(done) }()
	select {
	case <-done:
	case <-time.After(vrtJoinTimeout):
		panic(vrtTimeout{"vrtJoin: threads still blocked"})
	}
}

// vrtPoint is called by the instrumented repo code before every lock,
// condition-variable, wait-group and atomic operation.
func vrtPoint() {
	r := vrtS
	if r == nil || r.sched == nil {
		return
	}
	s := r.sched
	s.mu.Lock()
	id, ok := s.ids[vrtGoid()]
	if !ok || s.desync || len(s.order) == 0 {
		s.mu.Unlock()
		return
	}
	if s.running == id {
		s.running = -1
	}
	if len(s.arrivals) < 4000 {
		s.arrivals = append(s.arrivals, id)
	}
	start := time.Now()
	for {
		if s.turn >= len(s.order) || s.desync {
			s.mu.Unlock()
			return // script exhausted: free run
		}
		if s.running != -1 && time.Since(s.lastGrant) > vrtBlockedAfter {
			s.running = -1 // the granted thread is blocked inside a primitive
		}
		if s.running == -1 && s.order[s.turn] == id {
			s.turn++
			s.running = id
			s.lastGrant = time.Now()
			s.mu.Unlock()
			return
		}
		if time.Since(start) > vrtGiveUpAfter {
			s.desync = true
			s.mu.Unlock()
			return
		}
		s.mu.Unlock()
		time.Sleep(100 * time.Microsecond)
		s.mu.Lock()
	}
}

// ---------------------------------------------------------------------------
// Quiescence and the harness clock (native side). The engine lets every
// library thread run until all are blocked; natively "quiescent" means that no
// harness connection has seen activity for vrtQuietFor.

var vrtLastActivity int64

const vrtQuietFor = 25 * time.Millisecond

func vrtTouch() { atomic.StoreInt64(&vrtLastActivity, time.Now().UnixNano()) }

var (
	vrtQuiesceMu    sync.Mutex
	vrtQuiesceStack []int
	vrtQuiesceSeq   int
)

// vrtQuiesce may be called from a hook inside a library goroutine while the
// harness itself waits for quiescence: the innermost (most recent) caller
// finishes first, the others wait for it and then for quiet again.
func vrtQuiesce() {
	vrtQuiesceMu.Lock()
	vrtQuiesceSeq++
	me := vrtQuiesceSeq
	vrtQuiesceStack = append(vrtQuiesceStack, me)
	vrtQuiesceMu.Unlock()
	vrtTouch()
	for {
		time.Sleep(2 * time.Millisecond)
		vrtQuiesceMu.Lock()
		top := vrtQuiesceStack[len(vrtQuiesceStack)-1] == me
		vrtQuiesceMu.Unlock()
		if top && time.Now().UnixNano()-atomic.LoadInt64(&vrtLastActivity) > int64(vrtQuietFor) {
			break
		}
	}
	vrtQuiesceMu.Lock()
	vrtQuiesceStack = vrtQuiesceStack[:len(vrtQuiesceStack)-1]
	vrtQuiesceMu.Unlock()
	vrtTouch()
}

// vrtSettle: natively the same as vrtQuiesce.
func vrtSettle() { vrtQuiesce() }

var vrtClockOffset int64 // harness clock = real clock + offset (native side)

func vrtClock() int64          { return time.Now().UnixNano() + atomic.LoadInt64(&vrtClockOffset) }
func vrtClockSet(ns int64)     { atomic.StoreInt64(&vrtClockOffset, ns-time.Now().UnixNano()) }
func vrtTimeNS(t time.Time) int64 { return t.UnixNano() + atomic.LoadInt64(&vrtClockOffset) }

// ---------------------------------------------------------------------------
// Dialling (native side): Client.Connect calls net.Dial. The engine returns the
// harness pipe directly; natively a loopback listener accepts the client's TCP
// connection and a proxy couples it to the "library end" of the harness pipe,
// so the harness scripts the server through the same peer API in both worlds.

type vrtPipeEnd interface {
	io.Reader
	io.Writer
	io.Closer
}

var vrtDialAddr string

func vrtSetDialConnEnd(c vrtPipeEnd) {
	ln, err := net.Listen("tcp", "127.0.0.1:0")
	if err != nil {
		panic(err)
	}
	vrtDialAddr = ln.Addr().String()
	go func() {
		defer ln.Close()
		tc, err := ln.Accept()
		if err != nil {
			return
		}
		// client -> pipe
		go func() {
			buf := make([]byte, 4096)
			for {
				n, err := tc.Read(buf)
				if n > 0 {
					c.Write(buf[:n])
				}
				if err != nil {
					c.Close()
					return
				}
			}
		}()
		// pipe -> client
		buf := make([]byte, 4096)
		for {
			n, err := c.Read(buf)
			if n > 0 {
				tc.Write(buf[:n])
			}
			if err != nil {
				tc.Close()
				return
			}
		}
	}()
}

func vrtDialURI() string { return "tcp://" + vrtDialAddr }

func vrtLiveThreads() int { return -1 }

// vrtLiveGoroutines: goroutines alive now, relative to the start of this harness run
// (the engine counts its interpreter threads: 1 = only the harness itself).
var vrtGoroutineBase int

func vrtLiveGoroutines() int { return runtime.NumGoroutine() - vrtGoroutineBase + 1 }
