//go:build verif

package service

import (
	"fmt"

	"github.com/mdzio/go-mqtt/message"
	"github.com/mdzio/go-mqtt/sessions"
	"github.com/mdzio/go-mqtt/topics"
)

// C12: sender side - PUBREL follows PUBREC; the completion callback fires once,
// after the last acknowledgement. A client-role service (what Client.Connect
// builds after CONNACK) runs on a harness pipe; the application goroutine
// calls publish / subscribe / unsubscribe / ping; the harness is the server
// peer. Under the "preempt" scheduler the application goroutine can be
// suspended at any lock / atomic operation of the package until everything
// else has run dry - which covers "the acknowledgement is processed before
// the sending call has registered the request".

var vrtClientSeq int

func vrtClientService() (*service, *vrtConn) {
	vrtClientSeq++
	id := fmt.Sprintf("vrtclient%d", vrtClientSeq)
	c := vrtNewConn()
	svc := &service{id: uint64(vrtClientSeq), client: true, conn: c, keepAlive: 60, bufferSize: 1}
	cm := message.NewConnectMessage()
	cm.SetVersion(4)
	cm.SetClientID([]byte(id))
	cm.SetCleanSession(true)
	svc.sess = &sessions.Session{}
	if err := svc.sess.Init(cm); err != nil {
		panic(err)
	}
	topics.Register(id, topics.NewMemProvider())
	var err error
	svc.topicsMgr, err = topics.NewManager(id)
	if err != nil {
		panic(err)
	}
	if err := svc.start(); err != nil {
		panic(err)
	}
	return svc, c
}

// vrtServeAcks: the peer reads what the client wrote and acknowledges as a
// server would, as soon as it sees a request; returns the requests seen.
// vrtSubackExtra > 0: the peer's SUBACK carries that many return codes more
// than the request had filters (decodable, matching identifier).
var vrtSubackExtra int

func vrtServeAcks(c *vrtConn, rounds int, full bool) []specPkt {
	var seen []specPkt
	for r := 0; r < rounds; r++ {
		if full {
			vrtQuiesce()
		} else {
			vrtSettle() // the server does not wait for a stalled application goroutine
		}
		pk, ok := vrtParse(c.peerTake())
		vrtAssert("C12.client_stream_wellformed", ok)
		if len(pk) == 0 {
			break
		}
		for _, p := range pk {
			seen = append(seen, p)
			switch p.Typ {
			case specPUBLISH:
				switch (p.Flags >> 1) & 3 {
				case 1:
					c.peerSend(specEncode(&specPkt{Typ: specPUBACK, ID: p.ID}))
				case 2:
					c.peerSend(specEncode(&specPkt{Typ: specPUBREC, ID: p.ID}))
				}
			case specPUBREL:
				c.peerSend(specEncode(&specPkt{Typ: specPUBCOMP, ID: p.ID}))
			case specSUBSCRIBE:
				codes := append([]byte(nil), p.QoS...)
				for i := 0; i < vrtSubackExtra; i++ {
					codes = append(codes, 0)
				}
				c.peerSend(specEncode(&specPkt{Typ: specSUBACK, ID: p.ID, Codes: codes}))
			case specUNSUBSCRIBE:
				c.peerSend(specEncode(&specPkt{Typ: specUNSUBACK, ID: p.ID}))
			case specPINGREQ:
				c.peerSend(specEncode(&specPkt{Typ: specPINGRESP}))
			}
		}
	}
	return seen
}

func H12_completion() {
	svc, c := vrtClientService()
	kind := vrtChoice("kind", 5) // publish q0, q1, q2, subscribe, unsubscribe/ping
	completions := 0
	var cerr error
	onComplete := OnCompleteFunc(func(msg, ack message.Message, err error) error {
		completions++
		cerr = err
		return nil
	})
	var callErr error
	pingKind := false
	if kind == 4 {
		pingKind = vrtBool("ping")
	}
	vrtSubackExtra = 0
	if kind == 3 {
		vrtSubackExtra = vrtChoice("suback_surplus_codes", 2)
	}
	vrtGo(func() {
		switch kind {
		case 0, 1, 2:
			m := message.NewPublishMessage()
			m.SetTopic([]byte("t"))
			m.SetPayload([]byte("x"))
			m.SetQoS(byte(kind))
			callErr = svc.publish(m, onComplete)
		case 3:
			m := message.NewSubscribeMessage()
			m.AddTopic([]byte("t"), 1)
			callErr = svc.subscribe(m, onComplete, func(*message.PublishMessage) error { return nil })
		case 4:
			if pingKind {
				callErr = svc.ping(onComplete)
			} else {
				m := message.NewUnsubscribeMessage()
				m.AddTopic([]byte("t"))
				callErr = svc.unsubscribe(m, onComplete)
			}
		}
	})
	seen := vrtServeAcks(c, 4, false)
	vrtJoin()
	seen = append(seen, vrtServeAcks(c, 4, true)...)
	vrtQuiesce()
	vrtAssert("C12.call_ok", callErr == nil)
	vrtAssert("C12.completion_exactly_once", completions == 1)
	if vrtSubackExtra > 0 {
		vrtAssert("C12.malformed_suback_reported", cerr != nil)
	} else if !(kind == 4 && !pingKind) {
		vrtAssert("C12.completion_without_error", cerr == nil) // (unsubscribing a filter that was never subscribed reports an error to the callback)
	}
	if kind == 2 {
		// PUBLISH, then PUBREL carrying the same identifier
		ok := len(seen) == 2
		if ok {
			ok = seen[0].Typ == specPUBLISH && seen[1].Typ == specPUBREL && seen[1].ID == seen[0].ID
		}
		vrtAssert("C12.pubrel_follows_pubrec_same_id", ok)
		if ok {
			// every PUBREC is answered, also a repeated one after the exchange has completed
			c.peerSend(specEncode(&specPkt{Typ: specPUBREC, ID: seen[0].ID}))
			vrtQuiesce()
			again, okp := vrtParse(c.peerTake())
			answered := okp && len(again) == 1
			if answered {
				answered = again[0].Typ == specPUBREL && again[0].ID == seen[0].ID
			}
			vrtAssert("C12.repeated_pubrec_answered", answered)
			vrtAssert("C12.completion_not_repeated", completions == 1)
		}
	}
	vrtObserve("completion", kind, completions)
	vrtReach("C12.completed")
	svc.stop()
}

// H12two_qos2: two QoS 2 publishes in flight whose handshakes overlap in
// every order the peer may choose: a completion never fires before the
// PUBCOMP with its identifier has arrived, and fires at the latest once that
// PUBCOMP and those of all earlier requests have arrived.
func H12two_qos2() {
	svc, c := vrtClientService()
	done := [2]int{}
	var ackTyp [2]message.Type
	var ackID [2]uint16
	ids := [2]uint16{}
	for i := 0; i < 2; i++ {
		i := i
		m := message.NewPublishMessage()
		m.SetTopic([]byte("t"))
		m.SetPayload([]byte{byte('a' + i)})
		m.SetQoS(2)
		err := svc.publish(m, func(msg, ack message.Message, err error) error {
			done[i]++
			if ack != nil {
				ackTyp[i] = ack.Type()
				ackID[i] = ack.PacketID()
			}
			return nil
		})
		vrtAssert("C12.call_ok", err == nil)
		ids[i] = m.PacketID()
	}
	vrtQuiesce()
	pk, ok := vrtParse(c.peerTake())
	ok = ok && len(pk) == 2
	if ok {
		ok = pk[0].Typ == specPUBLISH && pk[1].Typ == specPUBLISH && pk[0].ID == ids[0] && pk[1].ID == ids[1]
	}
	vrtAssert("C12.two_publishes_on_wire", ok)
	vrtAssert("C12.ids_nonzero_distinct", ids[0] != 0 && ids[1] != 0 && ids[0] != ids[1])
	if !ok {
		return
	}
	// the peer's remaining steps: PUBREC x, PUBCOMP x (after the PUBREL) for x in {0,1}; any interleaving
	rec := [2]bool{}
	rel := [2]bool{}
	comp := [2]bool{}
	for step := 0; step < 4; step++ {
		var opts []int // 0,1: PUBREC of request 0/1; 2,3: PUBCOMP of request 0/1
		for x := 0; x < 2; x++ {
			if !rec[x] {
				opts = append(opts, x)
			} else if rel[x] && !comp[x] {
				opts = append(opts, 2+x)
			}
		}
		if len(opts) == 0 {
			break
		}
		o := opts[vrtChoice(fmt.Sprintf("step%d", step), len(opts))]
		x := o & 1
		if o < 2 {
			c.peerSend(specEncode(&specPkt{Typ: specPUBREC, ID: ids[x]}))
			rec[x] = true
			vrtQuiesce()
			out, okp := vrtParse(c.peerTake())
			good := okp && len(out) == 1
			if good {
				good = out[0].Typ == specPUBREL && out[0].ID == ids[x]
			}
			vrtAssert("C12.pubrel_follows_pubrec_same_id", good)
			rel[x] = good
		} else {
			c.peerSend(specEncode(&specPkt{Typ: specPUBCOMP, ID: ids[x]}))
			comp[x] = true
			vrtQuiesce()
		}
		for y := 0; y < 2; y++ {
			if !comp[y] {
				vrtAssert("C12.no_completion_before_pubcomp", done[y] == 0)
			}
		}
		if comp[0] {
			vrtAssert("C12.completion_once_after_pubcomp", done[0] == 1)
		}
		if comp[0] && comp[1] {
			vrtAssert("C12.completion_once_after_pubcomp", done[1] == 1)
		}
	}
	vrtAssert("C12.both_completed_once", done[0] == 1 && done[1] == 1)
	for y := 0; y < 2; y++ {
		vrtAssert("C12.completion_carries_pubcomp", ackTyp[y] == message.PUBCOMP && ackID[y] == ids[y])
	}
	vrtObserve("two", done[0], done[1])
	vrtReach("C12.two_completed")
	svc.stop()
}

// H12two_batch: two QoS 1 publishes acknowledged in either order, so that one
// acknowledgement may release both at once; the first request's callback may
// return an error. Each completion still fires exactly once, never before its
// own PUBACK, and at the latest when both have arrived.
func H12two_batch() {
	svc, c := vrtClientService()
	failing := vrtChoice("failing_callback", 3) // 2: none
	nocb := vrtChoice("without_callback", 3)    // 2: none; a request sent without a completion callback is
	// released like any other and must not take the callbacks of the requests released with it along
	// (round-7 change C12-14)
	done := [2]int{}
	ids := [2]uint16{}
	for i := 0; i < 2; i++ {
		i := i
		m := message.NewPublishMessage()
		m.SetTopic([]byte("t"))
		m.SetPayload([]byte{byte('a' + i)})
		m.SetQoS(1)
		var cb OnCompleteFunc = func(msg, ack message.Message, err error) error {
			done[i]++
			if failing == i {
				return fmt.Errorf("completion %d failed", i)
			}
			return nil
		}
		if nocb == i {
			cb = nil
			done[i] = 1 // (nothing to count)
		}
		err := svc.publish(m, cb)
		vrtAssert("C12.call_ok", err == nil)
		ids[i] = m.PacketID()
	}
	vrtQuiesce()
	c.peerTake()
	first := vrtChoice("acked_first", 2)
	c.peerSend(specEncode(&specPkt{Typ: specPUBACK, ID: ids[first]}))
	vrtQuiesce()
	vrtAssert("C12.no_completion_before_its_ack", done[1-first] == 0 || nocb == 1-first)
	if first == 0 {
		vrtAssert("C12.completion_once_after_ack", done[0] == 1)
	}
	c.peerSend(specEncode(&specPkt{Typ: specPUBACK, ID: ids[1-first]}))
	vrtQuiesce()
	vrtAssert("C12.both_completed_once", done[0] == 1 && done[1] == 1)
	vrtAssert("C12.connection_survives_callback_error", !c.isClosed())
	vrtReach("C12.batch_completed")
	svc.stop()
}


// H12two_sub_unsub: a SUBSCRIBE and an UNSUBSCRIBE in flight together, acknowledged in either order
// (the server may answer them in any order): each completion fires exactly once, when ITS OWN
// acknowledgement has arrived - not earlier, and not only when the other request's acknowledgement
// arrives too (round-7 change C12-13: both kinds of request shared one FIFO queue, so the later one's
// completion waited for the earlier one's acknowledgement).
func H12two_sub_unsub() {
	svc, c := vrtClientService()
	done := [2]int{}
	var errs [2]error
	subFirst := vrtBool("subscribe_first")
	ids := [2]uint16{}
	// the filter that will be unsubscribed is subscribed (and acknowledged) beforehand
	m0 := message.NewSubscribeMessage()
	m0.AddTopic([]byte("b"), 1)
	pre := 0
	vrtAssert("C12.call_ok", svc.subscribe(m0, func(msg, ack message.Message, err error) error { pre++; return nil }, func(*message.PublishMessage) error { return nil }) == nil)
	vrtQuiesce()
	c.peerTake()
	c.peerSend(specEncode(&specPkt{Typ: specSUBACK, ID: m0.PacketID(), Codes: []byte{1}}))
	vrtQuiesce()
	vrtAssert("C12.harness_presubscribed", pre == 1)
	send := func(i int) {
		if (i == 0) == subFirst {
			m := message.NewSubscribeMessage()
			m.AddTopic([]byte("a"), 1)
			err := svc.subscribe(m, func(msg, ack message.Message, err error) error { done[i]++; errs[i] = err; return nil },
				func(*message.PublishMessage) error { return nil })
			vrtAssert("C12.call_ok", err == nil)
			ids[i] = m.PacketID()
		} else {
			m := message.NewUnsubscribeMessage()
			m.AddTopic([]byte("b"))
			err := svc.unsubscribe(m, func(msg, ack message.Message, err error) error { done[i]++; errs[i] = err; return nil })
			vrtAssert("C12.call_ok", err == nil)
			ids[i] = m.PacketID()
		}
	}
	send(0)
	send(1)
	vrtQuiesce()
	c.peerTake()
	ack := func(i int) {
		if (i == 0) == subFirst {
			c.peerSend(specEncode(&specPkt{Typ: specSUBACK, ID: ids[i], Codes: []byte{1}}))
		} else {
			c.peerSend(specEncode(&specPkt{Typ: specUNSUBACK, ID: ids[i]}))
		}
		vrtQuiesce()
	}
	first := vrtChoice("acked_first", 2)
	ack(first)
	vrtAssert("C12.completion_once_after_its_own_ack", done[first] == 1 && errs[first] == nil)
	vrtAssert("C12.no_completion_before_its_ack", done[1-first] == 0)
	ack(1 - first)
	vrtAssert("C12.both_completed_once", done[0] == 1 && done[1] == 1 && errs[1-first] == nil)
	vrtReach("C12.two_completed")
	svc.stop()
}

// H12two_from_completion: the application issues its next request from INSIDE a completion callback (the
// usual way to chain publishes), or from another goroutine while a completion callback is still running
// (it takes its time). The connection keeps working: the second request goes out, is acknowledged, and
// its completion fires exactly once as well (round-9 change C12-18: a per-connection mutex held both
// while a request is registered and sent and while a completion callback runs).
func H12two_from_completion() {
	svc, c := vrtClientService()
	done := [2]int{}
	var err2 error = fmt.Errorf("second request never issued")
	mk := func(i int) *message.PublishMessage {
		m := message.NewPublishMessage()
		m.SetTopic([]byte("t"))
		m.SetPayload([]byte{byte('a' + i)})
		m.SetQoS(1 + byte(vrtChoice("qos", 2)))
		return m
	}
	m1, m2 := mk(0), mk(1)
	inside := vrtBool("second_request_from_inside_the_callback")
	g := vrtNewGate()
	second := func() {
		err2 = svc.publish(m2, func(msg, ack message.Message, err error) error {
			done[1]++
			return nil
		})
	}
	err := svc.publish(m1, func(msg, ack message.Message, err error) error {
		done[0]++
		if inside {
			second()
		} else {
			g.mu.Lock() // the callback takes its time
			for !g.open {
				g.cond.Wait()
			}
			g.mu.Unlock()
		}
		return nil
	})
	vrtAssert("C12.call_ok", err == nil)
	vrtQuiesce()
	ack := func(m *message.PublishMessage) {
		c.peerTake()
		if m.QoS() == 1 {
			c.peerSend(specEncode(&specPkt{Typ: specPUBACK, ID: m.PacketID()}))
		} else {
			c.peerSend(specEncode(&specPkt{Typ: specPUBREC, ID: m.PacketID()}))
			vrtQuiesce()
			c.peerSend(specEncode(&specPkt{Typ: specPUBCOMP, ID: m.PacketID()}))
		}
		vrtQuiesce()
	}
	ack(m1)
	if !inside {
		vrtGo(second)
		vrtQuiesce()
		g.release()
		vrtJoin()
		vrtQuiesce()
	}
	vrtAssert("C12.call_ok", err2 == nil)
	vrtAssert("C12.completion_once_after_ack", done[0] == 1 && done[1] == 0)
	ack(m2)
	vrtAssert("C12.both_completed_once", done[0] == 1 && done[1] == 1)
	vrtReach("C12.from_completion")
	svc.stop()
}
