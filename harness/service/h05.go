//go:build verif

package service

import "github.com/mdzio/go-mqtt/message"

// C05: no client's bad input or sudden disconnect can hurt the broker or other clients.
// An accepted offender (co-subscriber of the witnesses' topic, subscribed first)
// sends arbitrary bytes and is cut at an arbitrary point; two witness
// subscribers and a witness publisher must see exact delivery before, during
// and after, and stay connected. Any panic that escapes a goroutine is a crash
// event of the engine (the process would die).

func vrtWitnessRound(tag string, pub, s1, s2 *vrtConn, q1, q2 byte, id byte) {
	reply := vrtExchange(pub, &specPkt{Typ: specPUBLISH, Flags: 2, ID: uint16(id), Topic: []byte("w"), Payload: []byte{id}})
	vrtAssert("C05.publisher_acked."+tag, vrtBytesEq(reply, []byte{0x40, 2, 0, id}))
	for i, s := range []*vrtConn{s1, s2} {
		q := q1
		if i == 1 {
			q = q2
		}
		got, ok := vrtParse(s.peerTake())
		vrtAssert("C05.witness_stream_wellformed."+tag, ok)
		vrtAssert("C05.witness_gets_exactly_one."+tag, len(got) == 1)
		if len(got) == 1 {
			okp := vrtAnd(got[0].Typ == specPUBLISH, vrtAnd(vrtBytesEq(got[0].Topic, []byte("w")), vrtBytesEq(got[0].Payload, []byte{id})))
			vrtAssert("C05.witness_content."+tag, okp)
			vrtAssert("C05.witness_qos."+tag, (got[0].Flags>>1)&3 == specMinQos(1, q))
		}
		vrtAssert("C05.witness_stays_connected."+tag, !s.isClosed())
	}
	vrtAssert("C05.publisher_stays_connected."+tag, !pub.isClosed())
}

func H05_offender() {
	N := vrtBound("N05", 6)
	b := vrtBroker("mockSuccess")
	o, _ := b.connect(vrtConnectPkt([]byte("o"), vrtBool("offender_clean")))
	q0, q1, q2 := vrtByte("q0"), vrtByte("q1"), vrtByte("q2")
	vrtAssume(vrtAnd(q0 <= 2, vrtAnd(q1 <= 2, q2 <= 2)))
	ans := vrtExchange(o, &specPkt{Typ: specSUBSCRIBE, ID: 1, Topics: [][]byte{[]byte("w")}, QoS: []byte{q0}})
	vrtAssert("C05.harness_suback_o", vrtBytesEq(ans, []byte{0x90, 3, 0, 1, q0}))
	s1, _ := b.connect(vrtConnectPkt([]byte("s1"), true))
	s2, _ := b.connect(vrtConnectPkt([]byte("s2"), true))
	vrtExchange(s1, &specPkt{Typ: specSUBSCRIBE, ID: 1, Topics: [][]byte{[]byte("w")}, QoS: []byte{q1}})
	vrtExchange(s2, &specPkt{Typ: specSUBSCRIBE, ID: 1, Topics: [][]byte{[]byte("w")}, QoS: []byte{q2}})
	s1.peerTake()
	s2.peerTake()
	pub, _ := b.connect(vrtConnectPkt([]byte("p"), true))
	vrtWitnessRound("before", pub, s1, s2, q1, q2, 1)
	o.peerTake()
	// the offender's bytes (they cannot form a PUBLISH on the witnesses' topic)
	garbage := vrtBytesL("garbage", N)
	for _, g := range garbage {
		vrtAssume(g != 'w')
	}
	o.peerSend(garbage)
	vrtQuiesce()
	vrtWitnessRound("during", pub, s1, s2, q1, q2, 2)
	if !o.isClosed() {
		o.peerClose() // sudden disconnect, possibly in the middle of a packet
		vrtQuiesce()
		vrtReach("C05.cut_mid_stream")
	} else {
		vrtReach("C05.closed_by_broker")
	}
	vrtAssert("C05.offender_torn_down", o.isClosed())
	vrtWitnessRound("after", pub, s1, s2, q1, q2, 3)
	pong := vrtExchange(s1, &specPkt{Typ: specPINGREQ})
	vrtAssert("C05.witness_ping", vrtBytesEq(pong, []byte{0xD0, 0}))
	vrtObserve("offender", len(garbage))
	vrtReach("C05.survived")
}

// H05_preconnect: arbitrary bytes in arbitrary chunks, then EOF, before any CONNECT.
func H05_preconnect() {
	N := vrtBound("N05pre", 8)
	b := vrtBroker("mockSuccess")
	s1, _ := b.connect(vrtConnectPkt([]byte("s1"), true))
	s2, _ := b.connect(vrtConnectPkt([]byte("s2"), true))
	vrtExchange(s1, &specPkt{Typ: specSUBSCRIBE, ID: 1, Topics: [][]byte{[]byte("w")}, QoS: []byte{1}})
	vrtExchange(s2, &specPkt{Typ: specSUBSCRIBE, ID: 1, Topics: [][]byte{[]byte("w")}, QoS: []byte{0}})
	s1.peerTake()
	s2.peerTake()
	pub, _ := b.connect(vrtConnectPkt([]byte("p"), true))
	first := vrtBytesL("first", N)
	class, _ := specConnectClass(first)
	vrtAssume(class != 0) // not an acceptable CONNECT (that case is C11's)
	o := b.open()
	cut := vrtChoice("chunk", len(first)+1)
	o.peerSend(first[:cut])
	vrtQuiesce()
	o.peerSend(first[cut:])
	vrtQuiesce()
	if !o.isClosed() {
		o.peerClose()
		vrtQuiesce()
	}
	vrtAssert("C05.preconnect_closed", o.isClosed())
	vrtWitnessRound("after_garbage_connect", pub, s1, s2, 1, 0, 5)
	vrtReach("C05.survived_preconnect")
}

// H05_badwill: the offender's CONNECT carries an arbitrary (possibly invalid)
// will topic and it drops without DISCONNECT; whatever the broker does with
// that will, the witnesses (one of them subscribed to '#') keep exact delivery.
func H05_badwill() {
	b := vrtBroker("mockSuccess")
	s1, _ := b.connect(vrtConnectPkt([]byte("s1"), true))
	s2, _ := b.connect(vrtConnectPkt([]byte("s2"), true))
	vrtExchange(s1, &specPkt{Typ: specSUBSCRIBE, ID: 1, Topics: [][]byte{[]byte("#")}, QoS: []byte{1}})
	vrtExchange(s2, &specPkt{Typ: specSUBSCRIBE, ID: 1, Topics: [][]byte{[]byte("w")}, QoS: []byte{0}})
	s1.peerTake()
	s2.peerTake()
	pub, _ := b.connect(vrtConnectPkt([]byte("p"), true))
	w := vrtWill{flag: true, qos: vrtByte("willqos"), retain: vrtBool("willretain"), topic: vrtBytesL("willtopic", 2), payload: vrtBytesL("willpayload", 1)}
	vrtAssume(w.qos <= 2)
	for _, c := range w.topic {
		vrtAssume(c != 'w')
	}
	o, ack := b.connect(vrtConnectWithWill([]byte("o"), true, w))
	if !vrtIsConnack(ack, false, 0) {
		return // refused: C11's subject
	}
	vrtEnd(o, 1+vrtChoice("end", 2))
	_, ok1 := vrtParse(s1.peerTake())
	_, ok2 := vrtParse(s2.peerTake())
	vrtAssert("C05.witness_stream_wellformed.after_will", vrtAnd(ok1, ok2))
	vrtWitnessRound("after_will", pub, s1, s2, 1, 0, 7)
	vrtWitnessRound("after_will_again", pub, s1, s2, 1, 0, 8)
	vrtReach("C05.survived_badwill")
}

// H05_last_words: a client sends a final PUBLISH (and possibly DISCONNECT) and
// closes at once, so that the bytes and the end of the stream reach the
// receiver together (possibly in one Read: n > 0 with io.EOF, as crypto/tls
// delivers it): the other clients still receive exactly that message.
func H05_last_words() {
	b := vrtBroker("mockSuccess")
	s1, _ := b.connect(vrtConnectPkt([]byte("s1"), true))
	s2, _ := b.connect(vrtConnectPkt([]byte("s2"), true))
	vrtExchange(s1, &specPkt{Typ: specSUBSCRIBE, ID: 1, Topics: [][]byte{[]byte("w")}, QoS: []byte{1}})
	vrtExchange(s2, &specPkt{Typ: specSUBSCRIBE, ID: 1, Topics: [][]byte{[]byte("w")}, QoS: []byte{0}})
	s1.peerTake()
	s2.peerTake()
	pub, _ := b.connect(vrtConnectPkt([]byte("p"), true))
	o, _ := b.connect(vrtConnectPkt([]byte("o"), vrtBool("offender_clean")))
	v := vrtByte("last")
	last := specEncode(&specPkt{Typ: specPUBLISH, Topic: []byte("w"), Payload: []byte{v}})
	if vrtBool("with_disconnect") {
		last = append(last, specEncode(&specPkt{Typ: specDISCONNECT})...)
	}
	o.mu.Lock()
	o.eofWithLast = vrtBool("eof_with_last_bytes")
	o.peerClosed = true
	o.in = append(o.in, last...)
	o.cond.Broadcast()
	o.mu.Unlock()
	vrtQuiesce()
	vrtAssert("C05.offender_torn_down", o.isClosed())
	for _, s := range []*vrtConn{s1, s2} {
		got, ok := vrtParse(s.peerTake())
		vrtAssert("C05.witness_stream_wellformed.last_words", ok)
		vrtAssert("C05.witness_gets_last_message", len(got) == 1)
		if len(got) == 1 {
			vrtAssert("C05.witness_last_message_content", vrtAnd(got[0].Typ == specPUBLISH, vrtAnd(vrtBytesEq(got[0].Topic, []byte("w")), vrtBytesEq(got[0].Payload, []byte{v}))))
		}
	}
	vrtWitnessRound("after_last_words", pub, s1, s2, 1, 0, 6)
	vrtReach("C05.survived_last_words")
}

// H05_truncated_connect: every length-consistent truncation of a full CONNECT
// (will, user name and password present; protocol level 4 or 3) as the first
// packet of a connection: the fixed header announces exactly the bytes that
// follow, and they end in the middle of the variable header or payload. The
// broker must survive (the CONNECT is decoded in a goroutine without a panic
// guard), close at most that connection and keep serving the witnesses.
func H05_truncated_connect() {
	b := vrtBroker("mockSuccess")
	s1, _ := b.connect(vrtConnectPkt([]byte("s1"), true))
	s2, _ := b.connect(vrtConnectPkt([]byte("s2"), true))
	vrtExchange(s1, &specPkt{Typ: specSUBSCRIBE, ID: 1, Topics: [][]byte{[]byte("w")}, QoS: []byte{1}})
	vrtExchange(s2, &specPkt{Typ: specSUBSCRIBE, ID: 1, Topics: [][]byte{[]byte("w")}, QoS: []byte{0}})
	s1.peerTake()
	s2.peerTake()
	pub, _ := b.connect(vrtConnectPkt([]byte("p"), true))
	full := &specPkt{Typ: specCONNECT, Proto: []byte("MQTT"), Level: 4, CFlags: 0xC6, KeepAlive: 60,
		ClientID: []byte("o"), WillTopic: []byte("g"), WillMsg: []byte("x"), User: []byte("u"), Pass: []byte("p")}
	if vrtBool("v3") {
		full.Proto, full.Level = []byte("MQIsdp"), 3
	}
	body := specEncode(full)[2:]
	cut := vrtChoice("cut", len(body)) // 0 .. len-1 bytes of the body
	data := append([]byte{0x10, byte(cut)}, body[:cut]...)
	o := b.open()
	o.peerSend(data)
	vrtQuiesce()
	o.peerTake()
	if !o.isClosed() {
		o.peerClose()
		vrtQuiesce()
	}
	vrtAssert("C05.preconnect_closed", o.isClosed())
	vrtWitnessRound("after_truncated_connect", pub, s1, s2, 1, 0, 4)
	vrtReach("C05.survived_truncated_connect")
}

// H05s_stalled_cut: the offender stops reading until its outbound ring is full
// and a witness publisher's delivery to it blocks; then it is cut. The
// publisher's connection must come back to life: the other subscriber
// receives every message, intact and in order, and the publisher is answered.
func H05s_stalled_cut() {
	b := vrtBroker("mockSuccess")
	var o, s1 *vrtConn
	if vrtBool("offender_subscribes_first") {
		o, _ = b.connect(vrtConnectPkt([]byte("o"), true))
		vrtExchange(o, &specPkt{Typ: specSUBSCRIBE, ID: 1, Topics: [][]byte{[]byte("w")}, QoS: []byte{0}})
		s1, _ = b.connect(vrtConnectPkt([]byte("s1"), true))
		vrtExchange(s1, &specPkt{Typ: specSUBSCRIBE, ID: 1, Topics: [][]byte{[]byte("w")}, QoS: []byte{0}})
	} else {
		s1, _ = b.connect(vrtConnectPkt([]byte("s1"), true))
		vrtExchange(s1, &specPkt{Typ: specSUBSCRIBE, ID: 1, Topics: [][]byte{[]byte("w")}, QoS: []byte{0}})
		o, _ = b.connect(vrtConnectPkt([]byte("o"), true))
		vrtExchange(o, &specPkt{Typ: specSUBSCRIBE, ID: 1, Topics: [][]byte{[]byte("w")}, QoS: []byte{0}})
	}
	pub, _ := b.connect(vrtConnectPkt([]byte("p"), true))
	o.peerTake()
	s1.peerTake()
	o.peerStall(100)
	const n = 4
	for i := 0; i < n; i++ {
		pub.peerSend(specEncode(vrtBigPublish("w", byte(i))))
	}
	pub.peerSend(specEncode(&specPkt{Typ: specPINGREQ}))
	vrtQuiesce()
	vrtAssert("C05.harness_publisher_held_up", len(pub.peerTake()) == 0) // (the PINGREQ is queued behind the blocked delivery)
	if vrtBool("offender_pings_first") {
		// the stalled client still sends: its own processor now waits for the write mutex the blocked publisher holds
		o.peerSend(specEncode(&specPkt{Typ: specPINGREQ}))
		vrtQuiesce()
	}
	switch vrtChoice("cut", 3) {
	case 0:
		o.peerClose()
	case 1:
		o.peerExpireDeadline() // keep-alive expiry of the dead client
	case 2:
		o.peerSend([]byte{0x00, 0x00}) // (not even read: its processor may be blocked too)
		o.peerClose()
	}
	vrtQuiesce()
	vrtAssert("C05.offender_torn_down", o.isClosed())
	got, ok := vrtParse(s1.peerTake())
	vrtAssert("C05.witness_stream_wellformed.stalled_cut", ok)
	vrtAssert("C05.witness_gets_every_message", len(got) == n)
	for i := 0; i < len(got) && i < n; i++ {
		good := len(got[i].Payload) == vrtBig
		if good {
			good = got[i].Payload[0] == byte(i) && got[i].Payload[vrtBig-1] == byte(i)
		}
		vrtAssert("C05.witness_content.stalled_cut", good)
	}
	vrtAssert("C05.publisher_answered_after_cut", vrtBytesEq(pub.peerTake(), []byte{0xD0, 0}))
	vrtAssert("C05.publisher_stays_connected.stalled_cut", !pub.isClosed())
	vrtReach("C05.survived_stalled_cut")
}

// H05_late_delivery: a fan-out that is held up at a slow in-process subscriber still holds the delivery
// callback of a client that vanishes meanwhile; when the fan-out reaches that client its teardown -
// clean or persistent session, subscription and publish at QoS 0..2 - is COMPLETE (socket closed,
// goroutines gone, a clean session deleted). The late delivery must fail softly: the publisher keeps
// its connection and gets its acknowledgement, and the subscribers behind the dead one in the fan-out
// get the message (round-7 change C05-13: a deleted session's ack queues were released, so the late
// QoS 1/2 delivery panicked in the PUBLISHER's processor).
func H05_late_delivery() {
	b := vrtBroker("mockSuccess")
	slow := vrtNewInproc()
	var dying *vrtConn
	held := false
	inner := slow.fn
	slow.fn = func(m *message.PublishMessage) error {
		if !held {
			held = true
			dying.peerClose()
			vrtQuiesce() // the dying client's teardown runs to completion while the fan-out waits here
		}
		return inner(m)
	}
	b.svr.Subscribe("t", 2, &slow.fn)
	sq := vrtByte("subqos")
	vrtAssume(sq <= 2)
	sq = vrtConcretizeByte(sq)
	dying, _ = b.connect(vrtConnectPkt([]byte("d"), vrtBool("dying_clean")))
	vrtExchange(dying, &specPkt{Typ: specSUBSCRIBE, ID: 1, Topics: [][]byte{[]byte("t")}, QoS: []byte{sq}})
	w, _ := b.connect(vrtConnectPkt([]byte("w"), true))
	vrtExchange(w, &specPkt{Typ: specSUBSCRIBE, ID: 1, Topics: [][]byte{[]byte("t")}, QoS: []byte{2}})
	p, _ := b.connect(vrtConnectPkt([]byte("p"), true))
	q := vrtByte("q")
	vrtAssume(q <= 2)
	q = vrtConcretizeByte(q)
	pk := &specPkt{Typ: specPUBLISH, Flags: q << 1, Topic: []byte("t"), Payload: []byte("x")}
	if q > 0 {
		pk.ID = 5
	}
	ans := vrtExchange(p, pk)
	if q == 2 {
		ans = append(ans, vrtExchange(p, &specPkt{Typ: specPUBREL, Flags: 2, ID: 5})...)
	}
	vrtAssert("C05.harness_fanout_was_held", held)
	vrtAssert("C05.publisher_survives_late_delivery", !p.isClosed())
	acks, ok := vrtParse(ans)
	switch q {
	case 0:
		vrtAssert("C05.publisher_acknowledged", ok && len(acks) == 0)
	case 1:
		vrtAssert("C05.publisher_acknowledged", ok && len(acks) == 1 && acks[0].Typ == specPUBACK && acks[0].ID == 5)
	case 2:
		vrtAssert("C05.publisher_acknowledged", ok && len(acks) == 2 && acks[0].Typ == specPUBREC && acks[1].Typ == specPUBCOMP)
	}
	got, okw := vrtParse(w.peerTake())
	vrtAssert("C05.witness_stream_wellformed", okw)
	vrtCheckDelivery("witness_behind_dead_client", got, true, []byte("t"), []byte("x"), q)
	vrtCheckDelivery("slow_inproc", slow.take(), true, []byte("t"), []byte("x"), q)
	// and the next publish finds a consistent broker
	pk2 := &specPkt{Typ: specPUBLISH, Flags: 0, Topic: []byte("t"), Payload: []byte("y")}
	vrtExchange(p, pk2)
	got2, ok2 := vrtParse(w.peerTake())
	vrtAssert("C05.witness_stream_wellformed", ok2)
	vrtCheckDelivery("witness_next", got2, true, []byte("t"), []byte("y"), 0)
	vrtAssert("C05.publisher_survives_late_delivery", !p.isClosed() && !w.isClosed())
	vrtReach("C05.late_delivery")
}
