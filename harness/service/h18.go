//go:build verif

package service

import (
	"sync"

	"github.com/mdzio/go-mqtt/message"
	"github.com/mdzio/go-mqtt/sessions"
)

// C18: concurrent clients never cause unsynchronised access to shared broker
// state. Broker scenarios run with the engine's happens-before race detector
// (vector clocks over every memory cell; edges for mutex, RWMutex, Cond,
// WaitGroup, Once, atomics, go and channel close): a pair of conflicting
// accesses by two threads that no chain of synchronisation orders is a race,
// whatever the interleaving of this particular run was.

// P1: a retained update against a subscription that receives the retained message.
func H18_retained_update() {
	b := vrtBroker("mockSuccess")
	p, _ := b.connect(vrtConnectPkt([]byte("p"), true))
	q := vrtByte("q")
	vrtAssume(q <= 1)
	pk := &specPkt{Typ: specPUBLISH, Flags: 1 | q<<1, Topic: []byte("r"), Payload: []byte{vrtByte("v1")}}
	if q > 0 {
		pk.ID = 3
	}
	vrtExchange(p, pk)
	s, _ := b.connect(vrtConnectPkt([]byte("s"), true))
	vrtExchange(s, &specPkt{Typ: specSUBSCRIBE, ID: 1, Topics: [][]byte{[]byte("r")}, QoS: []byte{1}})
	in := vrtNewInproc()
	b.svr.Subscribe("r", 1, &in.fn)
	pk2 := &specPkt{Typ: specPUBLISH, Flags: 1 | q<<1, Topic: []byte("r"), Payload: []byte{vrtByte("v2")}}
	if q > 0 {
		pk2.ID = 4
	}
	vrtExchange(p, pk2)
	s2, _ := b.connect(vrtConnectPkt([]byte("s2"), true))
	vrtExchange(s2, &specPkt{Typ: specSUBSCRIBE, ID: 1, Topics: [][]byte{[]byte("#")}, QoS: []byte{1}}) // (no downgrade yet: the first one happens concurrently below)
	// two connections and an in-process call receive the same stored retained message at the same time
	s3, _ := b.connect(vrtConnectPkt([]byte("s3"), true))
	s2.peerSend(specEncode(&specPkt{Typ: specSUBSCRIBE, ID: 2, Topics: [][]byte{[]byte("r")}, QoS: []byte{0}})) // (its copy is downgraded)
	s3.peerSend(specEncode(&specPkt{Typ: specSUBSCRIBE, ID: 1, Topics: [][]byte{[]byte("+")}, QoS: []byte{2}}))
	in2 := vrtNewInproc()
	b.svr.Subscribe("r", 1, &in2.fn)
	vrtQuiesce()
	// the retained message is cleared while new subscriptions look it up (by a connection that was accepted
	// last: under the canonical schedule its goroutines run after the subscribers')
	p2, _ := b.connect(vrtConnectPkt([]byte("p2"), true))
	s2.peerSend(specEncode(&specPkt{Typ: specSUBSCRIBE, ID: 3, Topics: [][]byte{[]byte("r")}, QoS: []byte{0}}))
	s3.peerSend(specEncode(&specPkt{Typ: specSUBSCRIBE, ID: 2, Topics: [][]byte{[]byte("#")}, QoS: []byte{1}}))
	p2.peerSend(specEncode(&specPkt{Typ: specPUBLISH, Flags: 1, Topic: []byte("r")}))
	vrtQuiesce()
	vrtReach("C18.retained_update")
}

// P3/P4/P7: two publishers and Server.Publish to one subscriber, subscription churn in between.
func H18_fanout_churn() {
	b := vrtBroker("mockSuccess")
	s, _ := b.connect(vrtConnectPkt([]byte("s"), true))
	vrtExchange(s, &specPkt{Typ: specSUBSCRIBE, ID: 1, Topics: [][]byte{[]byte("t")}, QoS: []byte{1}})
	p1, _ := b.connect(vrtConnectPkt([]byte("p1"), true))
	p2, _ := b.connect(vrtConnectPkt([]byte("p2"), true))
	// both publishers' packets are queued before anybody runs
	p1.peerSend(specEncode(&specPkt{Typ: specPUBLISH, Flags: 2, ID: 1, Topic: []byte("t"), Payload: []byte("1")}))
	p2.peerSend(specEncode(&specPkt{Typ: specPUBLISH, Flags: 2, ID: 2, Topic: []byte("t"), Payload: []byte("2")}))
	s.peerSend(specEncode(&specPkt{Typ: specSUBSCRIBE, ID: 2, Topics: [][]byte{[]byte("u")}, QoS: []byte{0}}))
	m := message.NewPublishMessage()
	m.SetTopic([]byte("t"))
	m.SetPayload([]byte("3"))
	m.SetQoS(1)
	b.svr.Publish(m)
	vrtQuiesce()
	s.peerSend(specEncode(&specPkt{Typ: specUNSUBSCRIBE, ID: 3, Topics: [][]byte{[]byte("t")}}))
	p1.peerSend(specEncode(&specPkt{Typ: specPUBLISH, Topic: []byte("t"), Payload: []byte("4")}))
	vrtQuiesce()
	got, ok := vrtParse(s.peerTake())
	vrtAssert("C18.stream_wellformed", ok)
	_ = got
	vrtReach("C18.fanout_churn")
}

// P2/P6: delivery to a connection while it is being torn down; connects and session store.
func H18_teardown() {
	b := vrtBroker("mockSuccess")
	s, _ := b.connect(vrtConnectPkt([]byte("s"), vrtBool("clean")))
	vrtExchange(s, &specPkt{Typ: specSUBSCRIBE, ID: 1, Topics: [][]byte{[]byte("t")}, QoS: []byte{1}})
	p, _ := b.connect(vrtConnectPkt([]byte("p"), true))
	p.peerSend(specEncode(&specPkt{Typ: specPUBLISH, Flags: 2, ID: 1, Topic: []byte("t"), Payload: []byte("1")}))
	s.peerClose()
	c := b.open()
	c.peerSend(specEncode(vrtConnectPkt([]byte("n"), true)))
	vrtQuiesce()
	vrtExchange(p, &specPkt{Typ: specPUBLISH, Flags: 2, ID: 2, Topic: []byte("t"), Payload: []byte("2")})
	_ = b.svr.sessMgr.Count()
	vrtReach("C18.teardown")
}

// P2 with the interleaving forced by a hook: while a connection is being torn
// down (at its unsubscribe), another connection's publish is still delivered to it.
func H18_teardown_delivery() {
	b := vrtBroker("mockSuccess")
	s, _ := b.connect(vrtConnectPkt([]byte("s"), vrtBool("clean")))
	vrtExchange(s, &specPkt{Typ: specSUBSCRIBE, ID: 1, Topics: [][]byte{[]byte("t")}, QoS: []byte{1}})
	p, _ := b.connect(vrtConnectPkt([]byte("p"), true))
	raced := false
	vrtTopicsHook.onUnsubscribe = func(f []byte) {
		if raced {
			return
		}
		raced = true
		vrtExchange(p, &specPkt{Typ: specPUBLISH, Flags: 2, ID: 1, Topic: []byte("t"), Payload: []byte("1")})
	}
	s.peerClose()
	vrtQuiesce()
	vrtAssert("C18.harness_hook_ran", raced)
	vrtExchange(p, &specPkt{Typ: specPUBLISH, Flags: 2, ID: 2, Topic: []byte("t"), Payload: []byte("2")})
	vrtReach("C18.teardown_delivery")
}

// P5: one goroutine collects acknowledged requests and keeps reading them
// (as processAcked does, outside the queue's mutex) while another registers
// the next request on the same queue.
func H18_ackqueue() {
	sess := &sessions.Session{}
	cm := message.NewConnectMessage()
	cm.SetVersion(4)
	cm.SetClientID([]byte("c"))
	if err := sess.Init(cm); err != nil {
		panic(err)
	}
	q := sess.Pub1ack
	mk := func(id uint16) *message.PublishMessage {
		m := message.NewPublishMessage()
		m.SetTopic([]byte("t"))
		m.SetPayload([]byte{byte(id)})
		m.SetQoS(1)
		m.SetPacketID(id)
		return m
	}
	n := vrtBound("N18window", 16)
	for i := 1; i <= n; i++ {
		q.Wait(mk(uint16(i)), nil)
	}
	ack := message.NewPubackMessage()
	ack.SetPacketID(1)
	q.Ack(ack)
	// what processAcked does: collect under the queue's mutex, then use the entries outside it
	done := q.Acked()
	sum := 0
	vrtGo(func() {
		for _, am := range done {
			m := message.NewPublishMessage()
			m.Decode(am.Msgbuf)
			sum += int(m.PacketID()) + len(m.Payload())
		}
	})
	// meanwhile another connection's fan-out registers the next delivery on this queue
	vrtGo(func() { q.Wait(mk(uint16(n+1)), nil) })
	vrtJoin()
	_ = sum
	vrtReach("C18.ackqueue")
}

// P2b: a connection is torn down after other connections delivered to it
// (its traffic counters are updated by the delivering goroutines).
func H18_teardown_after_delivery() {
	b := vrtBroker("mockSuccess")
	s, _ := b.connect(vrtConnectPkt([]byte("s"), true))
	vrtExchange(s, &specPkt{Typ: specSUBSCRIBE, ID: 1, Topics: [][]byte{[]byte("t")}, QoS: []byte{0}})
	p, _ := b.connect(vrtConnectPkt([]byte("p"), true))
	vrtExchange(p, &specPkt{Typ: specPUBLISH, Topic: []byte("t"), Payload: []byte("1")})
	s.peerClose()
	vrtQuiesce()
	vrtReach("C18.teardown_after_delivery")
}

// P8: a stored session with a subscription is resumed while another
// connection publishes to the subscribed topic.
func H18_resume() {
	b := vrtBroker("mockSuccess")
	swill := vrtWill{flag: true, qos: 1, topic: []byte("t"), payload: []byte("the will of the first connection")}
	s, _ := b.connect(vrtConnectWithWill([]byte("s"), false, swill))
	vrtExchange(s, &specPkt{Typ: specSUBSCRIBE, ID: 1, Topics: [][]byte{[]byte("t")}, QoS: []byte{1}})
	p, _ := b.connect(vrtConnectPkt([]byte("p"), true))
	w2, _ := b.connect(vrtConnectPkt([]byte("w2"), true))
	vrtExchange(w2, &specPkt{Typ: specSUBSCRIBE, ID: 1, Topics: [][]byte{[]byte("t")}, QoS: []byte{1}})
	// the same client id connects again after its old connection ended, while it is still up, or while it
	// is just being torn down after a network drop (its will is being published)
	mode := vrtChoice("old_connection", 3)
	takeover := mode == 1
	switch mode {
	case 0:
		if vrtBool("disconnect") {
			vrtExchange(s, &specPkt{Typ: specDISCONNECT})
		}
		s.peerClose()
		vrtQuiesce()
	case 2:
		s.peerClose() // no waiting: the teardown overlaps with the new CONNECT
	}
	c := b.open()
	if vrtBool("publish_first") {
		p.peerSend(specEncode(&specPkt{Typ: specPUBLISH, Flags: 2, ID: 1, Topic: []byte("t"), Payload: []byte("1")}))
		c.peerSend(specEncode(vrtConnectWithWill([]byte("s"), false, vrtWill{flag: true, qos: 1, topic: []byte("t"), payload: []byte("second")})))
	} else {
		c.peerSend(specEncode(vrtConnectWithWill([]byte("s"), false, vrtWill{flag: true, qos: 1, topic: []byte("t"), payload: []byte("second")})))
		p.peerSend(specEncode(&specPkt{Typ: specPUBLISH, Flags: 2, ID: 1, Topic: []byte("t"), Payload: []byte("1")}))
	}
	vrtQuiesce()
	vrtExchange(p, &specPkt{Typ: specPUBLISH, Flags: 2, ID: 2, Topic: []byte("t"), Payload: []byte("2")})
	got, ok := vrtParse(c.peerTake())
	vrtAssert("C18.stream_wellformed", ok)
	_ = got
	if takeover {
		s.peerSend(specEncode(&specPkt{Typ: specDISCONNECT}))
		s.peerClose()
		vrtExchange(p, &specPkt{Typ: specPUBLISH, Flags: 2, ID: 3, Topic: []byte("t"), Payload: []byte("3")})
		vrtQuiesce()
	}
	vrtReach("C18.resume")
}

// P9: the in-process API used from several goroutines at once: two
// Server.Publish calls, a Server.Subscribe and a Server.Unsubscribe run
// concurrently with a connection's publish.
func H18_inproc_api() {
	b := vrtBroker("mockSuccess")
	s, _ := b.connect(vrtConnectPkt([]byte("s"), true))
	vrtExchange(s, &specPkt{Typ: specSUBSCRIBE, ID: 1, Topics: [][]byte{[]byte("t")}, QoS: []byte{1}})
	p, _ := b.connect(vrtConnectPkt([]byte("p"), true))
	in1, in2 := vrtNewInproc(), vrtNewInproc()
	b.svr.Subscribe("t", 1, &in1.fn)
	mk := func(topic, payload string, retain bool) *message.PublishMessage {
		m := message.NewPublishMessage()
		m.SetTopic([]byte(topic))
		m.SetPayload([]byte(payload))
		m.SetQoS(1)
		m.SetRetain(retain)
		return m
	}
	m1, m2 := mk("t", "1", false), mk("u", "2", vrtBool("retain"))
	vrtGo(func() { b.svr.Publish(m1) })
	vrtGo(func() { b.svr.Publish(m2) })
	vrtGo(func() { b.svr.Subscribe("u", 0, &in2.fn) })
	vrtGo(func() { b.svr.Unsubscribe("t", &in1.fn) })
	p.peerSend(specEncode(&specPkt{Typ: specPUBLISH, Flags: 2, ID: 1, Topic: []byte("t"), Payload: []byte("3")}))
	vrtJoin()
	vrtQuiesce()
	_, ok := vrtParse(s.peerTake())
	vrtAssert("C18.stream_wellformed", ok)
	vrtReach("C18.inproc_api")
}

// P10: the will of a dropped connection is still being fanned out (an
// in-process subscriber takes its time) when the same client id connects again
// and its session is updated with the new CONNECT: the subscribers behind the
// slow one receive the first connection's will, byte for byte.
func H18_will_during_takeover() {
	b := vrtBroker("mockSuccess")
	g := vrtNewGate()
	b.svr.Subscribe("t", 1, &g.fn)
	w2, _ := b.connect(vrtConnectPkt([]byte("w2"), true))
	vrtExchange(w2, &specPkt{Typ: specSUBSCRIBE, ID: 1, Topics: [][]byte{[]byte("t")}, QoS: []byte{0}})
	w2.peerTake()
	first := []byte("the will of the first connection")
	s, _ := b.connect(vrtConnectWithWill([]byte("s"), false, vrtWill{flag: true, qos: 0, topic: []byte("t"), payload: first}))
	s.peerClose()
	vrtQuiesce() // the teardown of s is now inside the fan-out of its will, held up by the slow subscriber
	c, ack := b.connect(vrtConnectWithWill([]byte("s"), false, vrtWill{flag: true, qos: 0, topic: []byte("t"), payload: []byte("second")}))
	vrtAssert("C18.harness_resumed", vrtIsConnack(ack, true, 0))
	g.release()
	vrtQuiesce()
	got, ok := vrtParse(w2.peerTake())
	vrtAssert("C18.stream_wellformed", ok && len(got) == 1)
	if ok && len(got) == 1 {
		vrtAssert("C18.will_bytes_stable_during_takeover", vrtAnd(vrtBytesEq(got[0].Topic, []byte("t")), vrtBytesEq(got[0].Payload, first)))
	}
	_ = c
	vrtReach("C18.will_during_takeover")
}

// P11: Server.Close while a connection is in the middle of its own teardown (its network end was
// dropped, its processor is inside stop(), at the point where it removes the session's
// subscriptions - forced by a hook on the topic store). Server.Close must not return - and must not
// pull the session and topic stores away - before that teardown has finished: the will is still
// published to an in-process witness, exactly once. Runs with the race detector (C18) and as a
// teardown scenario (C16).
func H18_close_during_teardown() {
	b := vrtBroker("mockSuccess")
	wit := vrtNewInproc()
	b.svr.Subscribe("w", 1, &wit.fn)
	s, _ := b.connect(vrtConnectWithWill([]byte("s"), vrtBool("clean"), vrtWill{flag: true, qos: 0, topic: []byte("w"), payload: []byte("last words")}))
	vrtExchange(s, &specPkt{Typ: specSUBSCRIBE, ID: 1, Topics: [][]byte{[]byte("t")}, QoS: []byte{1}})
	if vrtBool("second_connection") {
		b.connect(vrtConnectPkt([]byte("other"), true))
	}
	closeReturned, hookRan, early := false, false, false
	var mu sync.Mutex
	vrtTopicsHook.onUnsubscribe = func(f []byte) {
		if hookRan {
			return
		}
		hookRan = true
		vrtGo(func() {
			b.svr.Close()
			mu.Lock()
			closeReturned = true
			mu.Unlock()
		})
		vrtQuiesce() // Close gets as far as it can while this teardown is held up
		mu.Lock()
		early = closeReturned
		mu.Unlock()
	}
	s.peerClose()
	vrtQuiesce()
	vrtJoin()
	vrtTopicsHook.onUnsubscribe = nil
	vrtAssert("C18.harness_hook_ran", hookRan)
	vrtAssert("C16.close_waits_for_a_teardown_in_progress", !early)
	got := wit.take()
	vrtAssert("C16.will_dealt_with_despite_close", len(got) == 1)
	mu.Lock()
	vrtAssert("C16.server_close_returns", closeReturned)
	mu.Unlock()
	vrtReach("C18.close_during_teardown")
}

// P12: Server.Close against a connection that is being accepted at the same moment (the accept
// loop hands every connection to its own goroutine, and Close is what stops the loop, so the two
// are concurrent by design): the list of connections is shared between them.
func H18_close_vs_accept() {
	b := vrtBroker("mockSuccess")
	if vrtBool("one_established") {
		b.connect(vrtConnectPkt([]byte("old"), true))
	}
	c := vrtNewConn()
	b.conns = append(b.conns, c)
	c.peerSend(specEncode(vrtConnectPkt([]byte("new"), true)))
	vrtGo(func() { b.svr.handleConnection(c) })
	vrtGo(func() { b.svr.Close() })
	vrtJoin()
	vrtQuiesce()
	vrtReach("C18.close_vs_accept")
}

// P13: Server.Close while a connection that has a will is in the middle of a fan-out (held up by a slow
// in-process subscriber, with a second matching subscriber behind it): whatever Close does on that
// connection's behalf (its will is due) must not share the processor's working state with the processor
// (round-7 change C18-13 published the will from the closing goroutine before the processor had
// stopped).
func H18_close_during_fanout() {
	b := vrtBroker("mockSuccess")
	g := vrtNewGate()
	b.svr.Subscribe("t", 1, &g.fn)
	s2, _ := b.connect(vrtConnectPkt([]byte("s2"), true))
	vrtExchange(s2, &specPkt{Typ: specSUBSCRIBE, ID: 1, Topics: [][]byte{[]byte("t"), []byte("w")}, QoS: []byte{1, 1}})
	in2 := vrtNewInproc()
	b.svr.Subscribe("w", 1, &in2.fn)
	c, _ := b.connect(vrtConnectWithWill([]byte("c"), true, vrtWill{flag: true, qos: vrtConcretizeByte(vrtByte("willqos") & 1), topic: []byte("w"), payload: []byte("will")}))
	c.peerSend(specEncode(&specPkt{Typ: specPUBLISH, Flags: 2, ID: 5, Topic: []byte("t"), Payload: []byte("live")}))
	vrtQuiesce() // c's processor is now inside the fan-out, held up by the slow subscriber
	vrtGo(func() { b.svr.Close() })
	vrtQuiesce()
	g.release()
	vrtJoin()
	vrtQuiesce()
	vrtReach("C18.close_during_fanout")
}

// P14: a ring is closed by another goroutine (teardown, Server.Close) while its consumer is working on a
// block that straddles the end of the ring - the only case in which the consumer uses the ring's scratch
// buffer (round-7 change C18-14 let Close drop that scratch buffer). Exploring scheduler, race detector.
func H18_ring_close_vs_wrapped_consumer() {
	bf, err := newBuffer(1)
	if err != nil {
		panic(err)
	}
	c := bf.size - 3 // six unread bytes, three on each side of the end of the ring
	bf.cseq.set(c)
	bf.pseq.set(c + 6)
	bf.pseq.gate = c
	for i := int64(0); i < 6; i++ {
		bf.buf[(c+i)&bf.mask] = byte('a' + i)
	}
	cop := vrtChoice("cop", 2)
	sum := 0
	vrtGo(func() {
		for round := 0; round < 2; round++ {
			var p []byte
			var err error
			if cop == 0 {
				p, err = bf.ReadPeek(6)
			} else {
				p, err = bf.ReadWait(6)
			}
			if err != nil {
				return
			}
			for _, x := range p {
				sum += int(x)
			}
		}
	})
	vrtGo(func() { bf.Close() })
	vrtJoin()
	_ = sum
	vrtReach("C18.ring_close_vs_wrapped_consumer")
}

// P15: a LARGE retained message (2100 bytes; the small ones above never leave the first allocation class)
// is refreshed with a message of the same size - or a smaller one - at the moment two new subscriptions
// look it up and encode it for their connections, which they do after the store's lock is released: what
// the store hands out must not be rewritten under its readers (round-8 change C18-15 reused the stored
// encode buffer for updates of 2048 bytes and more that fit the old capacity). Each subscriber receives
// the retained message exactly once, entirely the old or entirely the new one.
func H18_retained_refresh_large() {
	b := vrtBroker("mockSuccess")
	p, _ := b.connect(vrtConnectPkt([]byte("p"), true))
	mk := func(n int, fill byte) []byte {
		x := make([]byte, n)
		for i := range x {
			x[i] = fill
		}
		return x
	}
	q := byte(vrtChoice("stored_qos", 2))
	oldp := mk(2100, 'A')
	newp := mk(2100-vrtChoice("shrinks_by", 2)*50, 'B')
	first := &specPkt{Typ: specPUBLISH, Flags: 1 | q<<1, Topic: []byte("r"), Payload: oldp}
	second := &specPkt{Typ: specPUBLISH, Flags: 1 | q<<1, Topic: []byte("r"), Payload: newp}
	if q > 0 {
		first.ID, second.ID = 3, 4
	}
	vrtExchange(p, first)
	s1, _ := b.connect(vrtConnectPkt([]byte("s1"), true))
	s2, _ := b.connect(vrtConnectPkt([]byte("s2"), true))
	in := vrtNewInproc()
	s1.peerSend(specEncode(&specPkt{Typ: specSUBSCRIBE, ID: 1, Topics: [][]byte{[]byte("r")}, QoS: []byte{1}}))
	p.peerSend(specEncode(second))
	s2.peerSend(specEncode(&specPkt{Typ: specSUBSCRIBE, ID: 1, Topics: [][]byte{[]byte("+")}, QoS: []byte{0}}))
	b.svr.Subscribe("r", 1, &in.fn)
	vrtQuiesce()
	for _, s := range []*vrtConn{s1, s2} {
		got, ok := vrtParse(s.peerTake())
		vrtAssert("C18.stream_wellformed", ok)
		n := 0
		for _, g := range got {
			if g.Typ != specPUBLISH || g.Flags&1 == 0 {
				continue // (the SUBACK; a live forward of the update carries no retain flag)
			}
			n++
			whole := vrtOr(vrtBytesEq(g.Payload, oldp), vrtBytesEq(g.Payload, newp))
			vrtAssert("C18.retained_message_not_torn", whole)
		}
		vrtAssert("C18.retained_delivered_once", n == 1)
	}
	vrtReach("C18.retained_refresh_large")
}
