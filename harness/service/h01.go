//go:build verif

package service

import (
	"fmt"
	"sync"

	"github.com/mdzio/go-mqtt/message"
)

// C01: a publish reaches exactly the clients whose current subscriptions match it.

type vrtInproc struct {
	mu  sync.Mutex // the callback may be invoked from several goroutines of the library
	fn  OnPublishFunc
	got []specPkt
}

func vrtNewInproc() *vrtInproc {
	i := &vrtInproc{}
	i.fn = func(m *message.PublishMessage) error {
		i.mu.Lock()
		defer i.mu.Unlock()
		i.got = append(i.got, specPkt{Typ: specPUBLISH, Flags: m.QoS()<<1 | vrtB2b(m.Retain(), 1) | vrtB2b(m.Dup(), 8),
			Topic: append([]byte(nil), m.Topic()...), Payload: append([]byte(nil), m.Payload()...)})
		return nil
	}
	return i
}

func (i *vrtInproc) take() []specPkt {
	i.mu.Lock()
	defer i.mu.Unlock()
	g := i.got
	i.got = nil
	return g
}

// vrtCheckDelivery: got must be exactly one PUBLISH(T, payload, qos, retain=0) if expect, else nothing.
func vrtCheckDelivery(who string, got []specPkt, expect bool, T, payload []byte, qos byte) {
	n := vrtConcretize(vrtIteInt(expect, 1, 0))
	vrtAssert("C01.exactly_the_matching_receive."+who, len(got) == n)
	if n == 1 && len(got) == 1 {
		p := got[0]
		vrtAssert("C01.same_topic."+who, vrtAnd(p.Typ == specPUBLISH, vrtBytesEq(p.Topic, T)))
		vrtAssert("C01.payload_byte_identical."+who, vrtBytesEq(p.Payload, payload))
		vrtAssert("C01.qos_is_min."+who, (p.Flags>>1)&3 == qos)
		vrtAssert("C01.no_retain_flag."+who, p.Flags&1 == 0)
		vrtReach("C01.delivered." + who)
	}
}

func H01_fanout() {
	V := vrtBound("N01levels", 2)
	b := vrtBroker("mockSuccess")
	a, _ := b.connect(vrtConnectPkt([]byte("a"), true))
	bb, _ := b.connect(vrtConnectPkt([]byte("b"), true))
	in := vrtNewInproc()
	FA, FB := vrtLevelName("FA", V, true), vrtLevelName("FB", vrtBound("N01levelsB", 1), true)
	FI := []byte("#")
	if vrtBound("N01inprocfilter", 0) == 1 {
		FI = vrtLevelName("FI", 1, true)
	}
	vrtAssume(vrtAnd(specFilterValid(FA), vrtAnd(specFilterValid(FB), specFilterValid(FI))))
	qa, qb, qi := vrtByte("qa"), vrtByte("qb"), vrtByte("qi")
	vrtAssume(vrtAnd(qa <= 2, vrtAnd(qb <= 2, qi <= 2)))
	ans := vrtExchange(a, &specPkt{Typ: specSUBSCRIBE, ID: 1, Topics: [][]byte{FA}, QoS: []byte{qa}})
	vrtAssert("C01.harness_suback_a", vrtBytesEq(ans, []byte{0x90, 3, 0, 1, qa}))
	ans = vrtExchange(bb, &specPkt{Typ: specSUBSCRIBE, ID: 1, Topics: [][]byte{FB}, QoS: []byte{qb}})
	vrtAssert("C01.harness_suback_b", vrtBytesEq(ans, []byte{0x90, 3, 0, 1, qb}))
	vrtAssert("C01.harness_inproc_subscribe", b.svr.Subscribe(string(FI), qi, &in.fn) == nil)
	holdA, holdB, holdI := true, true, true
	switch vrtChoice("change", vrtBound("N01changes", 3)) {
	case 1: // A unsubscribes
		ans = vrtExchange(a, &specPkt{Typ: specUNSUBSCRIBE, ID: 2, Topics: [][]byte{FA}})
		vrtAssert("C01.harness_unsuback", vrtBytesEq(ans, []byte{0xB0, 2, 0, 2}))
		holdA = false
	case 2: // B's connection ends
		vrtEnd(bb, vrtChoice("end", 2))
		holdB = false
	case 3: // A subscribes again with another QoS
		qa = vrtByte("qa2")
		vrtAssume(qa <= 2)
		ans = vrtExchange(a, &specPkt{Typ: specSUBSCRIBE, ID: 3, Topics: [][]byte{FA}, QoS: []byte{qa}})
		vrtAssert("C01.harness_suback_a2", vrtBytesEq(ans, []byte{0x90, 3, 0, 3, qa}))
	case 4: // the in-process subscriber leaves
		vrtAssert("C01.harness_inproc_unsubscribe", b.svr.Unsubscribe(string(FI), &in.fn) == nil)
		holdI = false
	}
	T := vrtLevelName("T", vrtBound("N01levelsT", 2), false)
	payload := vrtBytesL("payload", vrtBound("N01payload", 2))
	vrtAssume(len(payload) >= vrtBound("N01payloadmin", 0))
	p := vrtByte("p")
	vrtAssume(p <= 2)
	if vrtBool("inprocess_publish") {
		m := message.NewPublishMessage()
		m.SetTopic(T)
		m.SetPayload(payload)
		m.SetQoS(p)
		vrtAssert("C01.inprocess_publish_ok", b.svr.Publish(m) == nil)
		vrtQuiesce()
		vrtReach("C01.inprocess_publish")
	} else {
		pub, _ := b.connect(vrtConnectPkt([]byte("p"), true))
		pkt := &specPkt{Typ: specPUBLISH, Flags: p << 1, Topic: T, Payload: payload}
		if p > 0 {
			pkt.ID = 9
		}
		reply := vrtExchange(pub, pkt)
		if p == 2 {
			vrtAssert("C01.harness_pubrec", vrtBytesEq(reply, []byte{0x50, 2, 0, 9}))
			vrtExchange(pub, &specPkt{Typ: specPUBREL, ID: 9})
		}
	}
	ga, oka := vrtParse(a.peerTake())
	gb, okb := vrtParse(bb.peerTake())
	vrtAssert("C01.streams_wellformed", vrtAnd(oka, okb))
	vrtCheckDelivery("a", ga, vrtAnd(holdA, specMatch(FA, T)), T, payload, specMinQos(p, qa))
	vrtCheckDelivery("b", gb, vrtAnd(holdB, specMatch(FB, T)), T, payload, specMinQos(p, qb))
	vrtCheckDelivery("inproc", in.take(), vrtAnd(holdI, specMatch(FI, T)), T, payload, specMinQos(p, qi))
	vrtObserve("fanout", len(ga), len(gb))
	vrtReach("C01.published")
}

// H01_failing_subscriber: one matching subscriber cannot be delivered to (an
// in-process callback that returns an error, or a client whose write side is
// broken while its read side is still up); every other matching subscriber -
// before or behind it in the list - still receives the message exactly once.
func H01_failing_subscriber() {
	b := vrtBroker("mockSuccess")
	failing := vrtNewInproc()
	failing.fn = func(m *message.PublishMessage) error { return fmt.Errorf("subscriber failed") }
	brokenClient := vrtBool("broken_client")
	var o *vrtConn
	subscribeFailing := func() {
		if brokenClient {
			o, _ = b.connect(vrtConnectPkt([]byte("o"), true))
			vrtExchange(o, &specPkt{Typ: specSUBSCRIBE, ID: 1, Topics: [][]byte{[]byte("t")}, QoS: []byte{1}})
		} else {
			b.svr.Subscribe("t", 1, &failing.fn)
		}
	}
	first := vrtBool("failing_subscribes_first")
	if first {
		subscribeFailing()
	}
	a, _ := b.connect(vrtConnectPkt([]byte("a"), true))
	vrtExchange(a, &specPkt{Typ: specSUBSCRIBE, ID: 1, Topics: [][]byte{[]byte("t")}, QoS: []byte{1}})
	in := vrtNewInproc()
	b.svr.Subscribe("t", 1, &in.fn)
	if !first {
		subscribeFailing()
	}
	if brokenClient {
		o.mu.Lock()
		o.failWrites = true
		o.mu.Unlock()
		vrtExchange(o, &specPkt{Typ: specPINGREQ}) // the answer cannot be written: the sender gives up, the outgoing ring is closed
		vrtAssert("C01.harness_broken_client_still_connected", !o.isClosed())
	}
	p, _ := b.connect(vrtConnectPkt([]byte("p"), true))
	a.peerTake()
	in.take()
	q := vrtByte("q")
	vrtAssume(q <= 2)
	viaServer := vrtBool("server_publish")
	retain := vrtBool("retain")
	if viaServer {
		m := message.NewPublishMessage()
		m.SetTopic([]byte("t"))
		m.SetPayload([]byte("x"))
		m.SetQoS(q)
		m.SetRetain(retain)
		b.svr.Publish(m)
		vrtQuiesce()
	} else {
		pk := &specPkt{Typ: specPUBLISH, Flags: q<<1 | vrtB2b(retain, 1), Topic: []byte("t"), Payload: []byte("x")}
		if q > 0 {
			pk.ID = 5
		}
		vrtExchange(p, pk)
		if q == 2 {
			vrtExchange(p, &specPkt{Typ: specPUBREL, ID: 5})
		}
	}
	got, ok := vrtParse(a.peerTake())
	vrtAssert("C01.stream_wellformed", ok)
	vrtCheckDelivery("behind_failing", got, true, []byte("t"), []byte("x"), specMinQos(q, 1))
	gin := in.take()
	for i := range gin {
		// (what an in-process callback sees in the RETAIN flag of a live forward is the message object of the
		// publisher, as left by the deliveries before it - not part of the claim, which is about packets)
		gin[i].Flags &^= 1
	}
	vrtCheckDelivery("inproc_behind_failing", gin, true, []byte("t"), []byte("x"), specMinQos(q, 1))
	vrtAssert("C01.publisher_unaffected", !p.isClosed())
	// a retained message is stored whatever happened to the deliveries: a later subscription receives it
	late, _ := b.connect(vrtConnectPkt([]byte("late"), true))
	ans, okl := vrtParse(vrtExchange(late, &specPkt{Typ: specSUBSCRIBE, ID: 1, Topics: [][]byte{[]byte("t")}, QoS: []byte{2}}))
	wantLate := 1
	if retain {
		wantLate = 2
	}
	vrtAssert("C01.retained_stored_despite_failed_delivery", okl && len(ans) == wantLate)
	if okl && retain && len(ans) == 2 {
		vrtAssert("C01.retained_stored_despite_failed_delivery", vrtAnd(ans[1].Typ == specPUBLISH, vrtAnd(ans[1].Flags&1 == 1, vrtAnd((ans[1].Flags>>1)&3 == q, vrtBytesEq(ans[1].Payload, []byte("x"))))))
	}
	vrtReach("C01.failing_subscriber")
}

// H01_nested_publish: an in-process subscriber publishes another message
// through Server.Publish from inside its delivery callback (a bridge /
// republisher); the fan-out of the outer message goes on undisturbed, and the
// inner message reaches exactly its own subscribers.
func H01_nested_publish() {
	b := vrtBroker("mockSuccess")
	inA1, inA3, inB1, inB2 := vrtNewInproc(), vrtNewInproc(), vrtNewInproc(), vrtNewInproc()
	bridge := vrtNewInproc()
	bridgeCalls := 0
	var bmu sync.Mutex // (the callback runs on a goroutine of the library)
	bridge.fn = func(m *message.PublishMessage) error {
		bmu.Lock()
		bridgeCalls++
		bmu.Unlock()
		n := message.NewPublishMessage()
		n.SetTopic([]byte("b"))
		n.SetPayload([]byte("inner"))
		n.SetQoS(1)
		return b.svr.Publish(n)
	}
	a, _ := b.connect(vrtConnectPkt([]byte("a"), true))
	vrtExchange(a, &specPkt{Typ: specSUBSCRIBE, ID: 1, Topics: [][]byte{[]byte("a")}, QoS: []byte{1}})
	a.peerTake()
	pos := vrtChoice("bridge_position", 3)
	order := []*vrtInproc{inA1, inA3}
	subs := []*vrtInproc{}
	for i := 0; i < 3; i++ {
		if i == pos {
			subs = append(subs, bridge)
		} else {
			subs = append(subs, order[0])
			order = order[1:]
		}
	}
	for _, s := range subs {
		b.svr.Subscribe("a", 1, &s.fn)
	}
	b.svr.Subscribe("b", 2, &inB1.fn)
	b.svr.Subscribe("b", 0, &inB2.fn)
	// (the inner topic has more subscribers than the outer one: a subscriber list shared between the two
	// publications would be overwritten up to the outer loop's remaining positions)
	extra := []*vrtInproc{vrtNewInproc(), vrtNewInproc(), vrtNewInproc()}
	for _, x := range extra {
		b.svr.Subscribe("b", 1, &x.fn)
	}
	m := message.NewPublishMessage()
	m.SetTopic([]byte("a"))
	m.SetPayload([]byte("outer"))
	m.SetQoS(1)
	if vrtBool("from_a_connection") {
		p, _ := b.connect(vrtConnectPkt([]byte("p"), true))
		vrtExchange(p, &specPkt{Typ: specPUBLISH, Flags: 2, ID: 4, Topic: []byte("a"), Payload: []byte("outer")})
	} else {
		vrtAssert("C01.inprocess_publish_ok", b.svr.Publish(m) == nil)
		vrtQuiesce()
	}
	bmu.Lock()
	vrtAssert("C01.harness_bridge_called_once", bridgeCalls == 1)
	bmu.Unlock()
	vrtCheckDelivery("outer.in1", inA1.take(), true, []byte("a"), []byte("outer"), 1)
	vrtCheckDelivery("outer.in3", inA3.take(), true, []byte("a"), []byte("outer"), 1)
	got, ok := vrtParse(a.peerTake())
	vrtAssert("C01.stream_wellformed", ok)
	vrtCheckDelivery("outer.client", got, true, []byte("a"), []byte("outer"), 1)
	vrtCheckDelivery("inner.b1", inB1.take(), true, []byte("b"), []byte("inner"), 1)
	vrtCheckDelivery("inner.b2", inB2.take(), true, []byte("b"), []byte("inner"), 0)
	for _, x := range extra {
		vrtCheckDelivery("inner.extra", x.take(), true, []byte("b"), []byte("inner"), 1)
	}
	vrtReach("C01.nested_publish")
}

// H01s_boundary_sizes: a message the broker has to re-encode (QoS 1 publish
// delivered to a QoS 0 subscription, or published in-process) whose delivered
// remaining length is 125..131: topic and every payload byte
// arrive, and the packet has the size its header announces.
func H01s_boundary_sizes() {
	b := vrtBroker("mockSuccess")
	s, _ := b.connect(vrtConnectPkt([]byte("s"), true))
	vrtExchange(s, &specPkt{Typ: specSUBSCRIBE, ID: 1, Topics: [][]byte{[]byte("t")}, QoS: []byte{0}})
	s.peerTake()
	p, _ := b.connect(vrtConnectPkt([]byte("p"), true))
	// (the larger boundary, 16383/16384, is above the packet limit of the bench's 16 KiB rings: H03a / H04b cover it)
	targets := []int{125, 126, 127, 128, 129, 130, 131}
	R := targets[vrtChoice("delivered_remaining_length", len(targets))]
	payload := make([]byte, R-3) // QoS 0 delivery: 2 + len("t") + payload
	for i := range payload {
		payload[i] = byte('a' + i%23)
	}
	payload[len(payload)-1] = vrtByte("last")
	payload[0] = vrtByte("first")
	want := append([]byte(nil), payload...)
	if vrtBool("server_publish") {
		m := message.NewPublishMessage()
		m.SetTopic([]byte("t"))
		m.SetPayload(payload)
		m.SetQoS(1)
		vrtAssert("C01.inprocess_publish_ok", b.svr.Publish(m) == nil)
		vrtQuiesce()
	} else {
		vrtExchange(p, &specPkt{Typ: specPUBLISH, Flags: 2, ID: 9, Topic: []byte("t"), Payload: payload})
	}
	raw := s.peerTake()
	exp := specEncode(&specPkt{Typ: specPUBLISH, Topic: []byte("t"), Payload: want})
	vrtAssert("C01.boundary_size_delivered_bytes", vrtBytesEq(raw, exp))
	vrtReach("C01.boundary_sizes")
}

// H01_unsubscribe_in_callback: an in-process subscriber unsubscribes itself
// from inside its delivery callback, while the fan-out of that message is
// still going on: every other subscriber of the topic receives the message
// exactly once, with its own granted QoS.
func H01_unsubscribe_in_callback() {
	b := vrtBroker("mockSuccess")
	n := 3
	subs := make([]*vrtInproc, n)
	qoss := []byte{1, 0, 2}
	leaver := vrtChoice("leaver", n)
	for i := 0; i < n; i++ {
		subs[i] = vrtNewInproc()
	}
	left := 0
	inner := subs[leaver].fn
	var leaverFn OnPublishFunc
	leaverFn = func(m *message.PublishMessage) error {
		left++
		err := inner(m)
		b.svr.Unsubscribe("t", &leaverFn)
		return err
	}
	for i := 0; i < n; i++ {
		if i == leaver {
			b.svr.Subscribe("t", qoss[i], &leaverFn)
		} else {
			b.svr.Subscribe("t", qoss[i], &subs[i].fn)
		}
	}
	a, _ := b.connect(vrtConnectPkt([]byte("a"), true))
	vrtExchange(a, &specPkt{Typ: specSUBSCRIBE, ID: 1, Topics: [][]byte{[]byte("t")}, QoS: []byte{1}})
	a.peerTake()
	m := message.NewPublishMessage()
	m.SetTopic([]byte("t"))
	m.SetPayload([]byte("x"))
	m.SetQoS(2)
	vrtAssert("C01.inprocess_publish_ok", b.svr.Publish(m) == nil)
	vrtQuiesce()
	vrtAssert("C01.harness_leaver_called_once", left == 1)
	for i := 0; i < n; i++ {
		vrtCheckDelivery("fanout_with_leaver", subs[i].take(), true, []byte("t"), []byte("x"), qoss[i])
	}
	got, ok := vrtParse(a.peerTake())
	vrtAssert("C01.stream_wellformed", ok)
	vrtCheckDelivery("fanout_with_leaver.client", got, true, []byte("t"), []byte("x"), 1)
	// afterwards the one that left receives nothing
	vrtAssert("C01.inprocess_publish_ok", b.svr.Publish(m) == nil)
	vrtQuiesce()
	vrtAssert("C01.nothing_after_unsubscribe", len(subs[leaver].take()) == 0)
	vrtReach("C01.unsubscribe_in_callback")
}
