//go:build verif

package service

import (
	"github.com/mdzio/go-mqtt/auth"
	"github.com/mdzio/go-mqtt/topics"
)

// C09: the will is published exactly when a connection ends without DISCONNECT.
// C10: clean and persistent sessions.

type vrtWill struct {
	flag    bool
	qos     byte
	retain  bool
	topic   []byte
	payload []byte
}

func vrtSymbolicWill(name string) vrtWill {
	w := vrtWill{flag: vrtBool(name + ".flag")}
	if w.flag {
		w.qos = vrtByte(name + ".qos")
		vrtAssume(w.qos <= 2)
		w.retain = vrtBool(name + ".retain")
		w.topic = []byte{'w', vrtByte(name + ".topic")}
		vrtAssume(specTopicValid(w.topic))
		vrtAssume(w.topic[1] != '/')
		w.payload = vrtBytesL(name+".payload", 1)
	}
	return w
}

func vrtConnectWithWill(id []byte, clean bool, w vrtWill) *specPkt {
	p := vrtConnectPkt(id, clean)
	if w.flag {
		p.CFlags |= 4 | w.qos<<3 | vrtB2b(w.retain, 32)
		p.WillTopic, p.WillMsg = w.topic, w.payload
	}
	return p
}

func vrtB2b(b bool, v byte) byte { return vrtIteByte(b, v, 0) }

// vrtEnd ends a connection in one of the ways a connection can end; returns true for DISCONNECT.
func vrtEnd(c *vrtConn, how int) bool {
	switch how {
	case 0:
		vrtExchange(c, &specPkt{Typ: specDISCONNECT})
		if !c.isClosed() {
			c.peerClose()
			vrtQuiesce()
		}
		return true
	case 5:
		// DISCONNECT and the TCP close arrive together: the DISCONNECT is still in the
		// input ring when the receiver sees end-of-stream (possibly even in the same Read)
		c.mu.Lock()
		c.eofWithLast = vrtBool("eof_with_last_bytes")
		c.peerClosed = true
		c.in = append(c.in, specEncode(&specPkt{Typ: specDISCONNECT})...)
		c.cond.Broadcast()
		c.mu.Unlock()
		vrtQuiesce()
		return true
	case 6:
		// the write side of the connection is already broken (the broker cannot answer any
		// more) when the client sends a request and, right behind it, DISCONNECT
		c.mu.Lock()
		c.failWrites = true
		c.mu.Unlock()
		vrtExchange(c, &specPkt{Typ: specPINGREQ})
		c.peerSend(append(specEncode(&specPkt{Typ: specPINGREQ}), specEncode(&specPkt{Typ: specDISCONNECT})...))
		c.peerClose()
		vrtQuiesce()
		return true
	case 1:
		c.peerClose() // network drop
	case 2:
		c.peerExpireDeadline() // keep-alive expiry: the armed read deadline passes
	case 3:
		c.peerSend([]byte{0x00, 0x00}) // protocol error: reserved packet type
	case 4:
		c.peerSend([]byte{0x30, 0x02, 0x00, 0x05}) // malformed PUBLISH (topic length beyond the packet)
	}
	vrtQuiesce()
	return false
}

// vrtCheckWill: what the witness (subscribed to "#" at QoS 2) saw after the connection ended.
func vrtCheckWill(tag string, wit *vrtConn, w vrtWill, expect bool) {
	got, ok := vrtParse(wit.peerTake())
	vrtAssert("C09.stream_wellformed", ok)
	if !expect {
		vrtAssert("C09.no_will"+tag, len(got) == 0)
		return
	}
	vrtAssert("C09.will_published_once"+tag, len(got) == 1)
	if len(got) != 1 {
		return
	}
	p := got[0]
	vrtAssert("C09.will_is_publish"+tag, p.Typ == specPUBLISH)
	vrtAssert("C09.will_topic"+tag, vrtBytesEq(p.Topic, w.topic))
	vrtAssert("C09.will_payload"+tag, vrtBytesEq(p.Payload, w.payload))
	vrtAssert("C09.will_qos"+tag, (p.Flags>>1)&3 == w.qos)
	vrtAssert("C09.will_forwarded_without_retain_flag"+tag, p.Flags&1 == 0)
	vrtReach("C09.will_seen")
}

func H09_will() {
	b := vrtBroker("mockSuccess")
	wit, _ := b.connect(vrtConnectPkt([]byte("wit"), true))
	ans := vrtExchange(wit, &specPkt{Typ: specSUBSCRIBE, ID: 1, Topics: [][]byte{[]byte("#")}, QoS: []byte{2}})
	vrtAssert("C09.harness_suback", vrtBytesEq(ans, []byte{0x90, 3, 0, 1, 2}))
	w := vrtSymbolicWill("will")
	clean := vrtBool("clean")
	c, ack := b.connect(vrtConnectWithWill([]byte("c"), clean, w))
	vrtAssert("C09.harness_connack", vrtIsConnack(ack, false, 0))
	if vrtBool("traffic") {
		pong := vrtExchange(c, &specPkt{Typ: specPINGREQ})
		vrtAssert("C09.harness_pingresp", vrtBytesEq(pong, []byte{0xD0, 0}))
	}
	vrtAssert("C09.nothing_before_end", len(wit.peerTake()) == 0)
	how := vrtChoice("end", 7)
	disc := vrtEnd(c, how)
	vrtAssert("C09.connection_closed", c.isClosed())
	vrtCheckWill("", wit, w, w.flag && !disc)
	if w.flag && !disc && w.retain && len(w.payload) > 0 {
		vrtAssert("C09.will_retained", b.retainedCount() == 1)
	} else {
		vrtAssert("C09.will_not_retained", b.retainedCount() == 0)
	}
	// the end of the connection was processed completely: a clean session leaves nothing
	want := 2
	if clean {
		want = 1
	}
	vrtAssert("C09.teardown_completed", b.svr.sessMgr.Count() == want)
	vrtObserve("will", how, w.flag)
	vrtReach("C09.ended")
}

// H09_reconnect: two successive connections of one client id; the will that
// counts is the one of the CONNECT of the connection that is ending.
func H09_reconnect() {
	b := vrtBroker("mockSuccess")
	wit, _ := b.connect(vrtConnectPkt([]byte("wit"), true))
	vrtExchange(wit, &specPkt{Typ: specSUBSCRIBE, ID: 1, Topics: [][]byte{[]byte("#")}, QoS: []byte{2}})
	w1 := vrtSymbolicWill("will1")
	clean1 := vrtBool("clean1")
	c1, _ := b.connect(vrtConnectWithWill([]byte("c"), clean1, w1))
	disc1 := vrtEnd(c1, vrtChoice("end1", 2))
	vrtCheckWill(".first", wit, w1, w1.flag && !disc1)
	retainedAfter1 := b.retainedCount()
	if w1.flag && !disc1 && w1.retain && len(w1.payload) > 0 {
		vrtAssert("C09.first_will_retained", retainedAfter1 == 1)
	} else {
		vrtAssert("C09.first_will_not_retained", retainedAfter1 == 0)
	}
	w2 := vrtSymbolicWill("will2")
	sameTopic := false
	if w1.flag && w2.flag {
		sameTopic = w1.topic[1] == w2.topic[1] // (the second CONNECT may be byte-identical to the first)
	}
	clean2 := vrtBool("clean2")
	c2, ack := b.connect(vrtConnectWithWill([]byte("c"), clean2, w2))
	vrtAssert("C09.harness_connack2", vrtIsConnack(ack, !clean1 && !clean2, 0))
	disc2 := vrtEnd(c2, vrtChoice("end2", 2))
	vrtCheckWill(".second", wit, w2, w2.flag && !disc2)
	// the retained store reflects the second will's own retain flag
	if w2.flag && !disc2 {
		want := retainedAfter1
		stores := w2.retain && len(w2.payload) > 0
		clears := w2.retain && len(w2.payload) == 0
		switch {
		case stores && !(sameTopic && retainedAfter1 == 1):
			want++
		case clears && sameTopic && retainedAfter1 == 1:
			want--
		}
		vrtAssert("C09.second_will_retain_flag", b.retainedCount() == want)
	}
	vrtReach("C09.reconnected")
}

// H10_sessions: successive connections over two client ids.
func H10_sessions() {
	K := vrtBound("N10conns", 3)
	b := vrtBroker("mockSuccess")
	wit, _ := b.connect(vrtConnectPkt([]byte("wit"), true))
	ids := [2]byte{vrtByte("id0"), vrtByte("id1")}
	vrtAssume(vrtAnd(ids[0] >= 'a', ids[0] <= 'z'))
	vrtAssume(vrtAnd(ids[1] >= 'a', ids[1] <= 'z'))
	same := ids[0] == ids[1]
	// model: persistent store (present, subscribed to "t" with which granted QoS)
	var present, stored [2]bool
	var storedQ [2]byte
	pubID := uint16(50)
	publish := func(payload string) {
		pubID++
		vrtExchange(wit, &specPkt{Typ: specPUBLISH, Flags: 2, ID: pubID, Topic: []byte("t"), Payload: []byte(payload)})
	}
	check := func(c *vrtConn, tag string, sub bool, q byte) {
		got, ok := vrtParse(c.peerTake())
		vrtAssert("C10.stream_wellformed", ok)
		vrtAssert("C10."+tag+"_delivers", len(got) == vrtIteInt(sub, 1, 0))
		if sub && len(got) == 1 {
			vrtAssert("C10."+tag+"_qos", (got[0].Flags>>1)&3 == specMinQos(1, q))
		}
	}
	for k := 0; k < K; k++ {
		which := vrtChoice("which", 2)
		mi := which
		if same {
			mi = 0
		}
		clean := vrtBool("clean")
		cp := vrtConnectPkt([]byte{ids[which]}, clean)
		if clean && vrtBound("N10will", 1) == 1 {
			// clean sessions carry a will with a zero-length payload (legal in 3.1.1)
			cp.CFlags |= 4
			cp.WillTopic, cp.WillMsg = []byte("w"), nil
			if vrtBool("will_topic_in_dollar_space") {
				cp.WillTopic = []byte("$w") // a will nobody can be handed: its publication fails, the teardown goes on
			}
		}
		c, ack := b.connect(cp)
		sp := !clean && present[mi]
		vrtAssert("C10.session_present_flag", vrtIsConnack(ack, sp, 0))
		sub := false
		q := byte(0)
		if clean {
			present[mi], stored[mi] = false, false
		} else {
			sub = present[mi] && stored[mi]
			q = storedQ[mi]
			present[mi] = true
		}
		// a QoS 1 publish right after CONNACK: delivered iff the resumed session holds the
		// subscription, at the QoS that was granted before the disconnect
		publish("1")
		check(c, "restored_subscription", sub, q)
		if sub {
			vrtReach("C10.restored")
		}
		action := vrtChoice("action", 4)
		switch action {
		case 1, 3:
			q = vrtByte("q")
			vrtAssume(q <= 1)
			if action == 1 && vrtBool("refused_filter_first") {
				// one request: a filter the broker refuses, then the accepted one
				ans := vrtExchange(c, &specPkt{Typ: specSUBSCRIBE, ID: 9, Topics: [][]byte{[]byte("$SYS/#"), []byte("t")}, QoS: []byte{1 - q, q}})
				vrtAssert("C10.harness_suback", vrtBytesEq(ans, []byte{0x90, 4, 0, 9, 0x80, q}))
			} else {
				ans := vrtExchange(c, &specPkt{Typ: specSUBSCRIBE, ID: 9, Topics: [][]byte{[]byte("t")}, QoS: []byte{q}})
				vrtAssert("C10.harness_suback", vrtBytesEq(ans, []byte{0x90, 3, 0, 9, q}))
			}
			sub = true
		case 2:
			ans := vrtExchange(c, &specPkt{Typ: specUNSUBSCRIBE, ID: 9, Topics: [][]byte{[]byte("t")}})
			vrtAssert("C10.harness_unsuback", vrtBytesEq(ans, []byte{0xB0, 2, 0, 9}))
			sub = false
		}
		if action == 3 {
			// the same filter again, with another QoS: the later one counts
			q = 1 - q
			ans := vrtExchange(c, &specPkt{Typ: specSUBSCRIBE, ID: 10, Topics: [][]byte{[]byte("t")}, QoS: []byte{q}})
			vrtAssert("C10.harness_suback2", vrtBytesEq(ans, []byte{0x90, 3, 0, 10, q}))
		}
		if !clean {
			stored[mi], storedQ[mi] = sub, q
		}
		publish("2")
		check(c, "live_subscription", sub, q)
		vrtEnd(c, vrtChoice("end", 2))
		vrtAssert("C10.connection_closed", c.isClosed())
		// nothing of a clean session survives; a persistent one stays in the store
		n := 0
		if present[0] {
			n++
		}
		if !same && present[1] {
			n++
		}
		vrtAssert("C10.session_store_size", b.svr.sessMgr.Count() == n+1)
		wit.peerTake()
	}
	vrtReach("C10.history")
}

// H10_takeover: a client id connects again (CleanSession=0) while its old
// connection is still up; the newer connection subscribes; the old one is torn
// down later. The stored session keeps what was subscribed through either
// connection, whatever the order of the endings.
func H10_takeover() {
	b := vrtBroker("mockSuccess")
	wit, _ := b.connect(vrtConnectPkt([]byte("wit"), true))
	a, _ := b.connect(vrtConnectPkt([]byte("x"), false))
	vrtExchange(a, &specPkt{Typ: specSUBSCRIBE, ID: 1, Topics: [][]byte{[]byte("t1")}, QoS: []byte{1}})
	bb, ack := b.connect(vrtConnectPkt([]byte("x"), false))
	vrtAssert("C10.session_present_flag", vrtIsConnack(ack, true, 0))
	q := vrtByte("q")
	vrtAssume(q <= 1)
	ans := vrtExchange(bb, &specPkt{Typ: specSUBSCRIBE, ID: 2, Topics: [][]byte{[]byte("t2")}, QoS: []byte{q}})
	vrtAssert("C10.harness_suback", vrtBytesEq(ans, []byte{0x90, 3, 0, 2, q}))
	first, second := a, bb
	if vrtBool("newer_ends_first") {
		first, second = bb, a
	}
	vrtEnd(first, vrtChoice("end1", 2))
	vrtEnd(second, vrtChoice("end2", 2))
	a.peerTake()
	bb.peerTake()
	wit.peerTake()
	c, ack2 := b.connect(vrtConnectPkt([]byte("x"), false))
	vrtAssert("C10.session_present_flag", vrtIsConnack(ack2, true, 0))
	vrtExchange(wit, &specPkt{Typ: specPUBLISH, Flags: 2, ID: 60, Topic: []byte("t1"), Payload: []byte("1")})
	vrtExchange(wit, &specPkt{Typ: specPUBLISH, Flags: 2, ID: 61, Topic: []byte("t2"), Payload: []byte("2")})
	got, ok := vrtParse(c.peerTake())
	vrtAssert("C10.stream_wellformed", ok)
	vrtAssert("C10.restored_subscription_delivers", len(got) == 2)
	if len(got) == 2 {
		vrtAssert("C10.restored_subscription_topics", vrtAnd(vrtBytesEq(got[0].Topic, []byte("t1")), vrtBytesEq(got[1].Topic, []byte("t2"))))
		vrtAssert("C10.restored_subscription_qos", vrtAnd((got[0].Flags>>1)&3 == 1, (got[1].Flags>>1)&3 == q))
	}
	vrtReach("C10.takeover")
}

// H09_pipelined: the client does not wait for CONNACK (MQTT 3.1.1 section
// 3.1.4 allows that): CONNECT (with a will), a PUBLISH and DISCONNECT are sent
// back to back and reach the broker in two segments cut at an arbitrary
// position (inside the CONNECT, between the packets, or not at all). The
// CONNECT is accepted, the PUBLISH is forwarded, the DISCONNECT discards the
// will.
func H09_pipelined() {
	b := vrtBroker("mockSuccess")
	wit, _ := b.connect(vrtConnectPkt([]byte("wit"), true))
	vrtExchange(wit, &specPkt{Typ: specSUBSCRIBE, ID: 1, Topics: [][]byte{[]byte("#")}, QoS: []byte{0}})
	wit.peerTake()
	w := vrtWill{flag: true, qos: 0, topic: []byte("gone"), payload: []byte("w")}
	connect := specEncode(vrtConnectWithWill([]byte("c"), vrtBool("clean"), w))
	data := append([]byte(nil), connect...)
	withPublish := vrtBool("publish")
	if withPublish {
		data = append(data, specEncode(&specPkt{Typ: specPUBLISH, Topic: []byte("p"), Payload: []byte("x")})...)
	}
	withPing := vrtBool("ping")
	if withPing {
		data = append(data, specEncode(&specPkt{Typ: specPINGREQ})...)
	}
	withDisconnect := vrtBool("disconnect")
	if withDisconnect {
		data = append(data, specEncode(&specPkt{Typ: specDISCONNECT})...)
	}
	cut := vrtChoice("cut", len(data)+1)
	c := b.open()
	c.peerSend(data[:cut])
	vrtQuiesce()
	c.peerSend(data[cut:])
	vrtQuiesce()
	answered := c.peerTake()
	if withPing && !withDisconnect {
		// the CONNACK is the first packet the broker sends, the answer to the pipelined request comes behind it
		vrtAssert("C09.pipelined_connect_accepted", vrtBytesEq(answered, []byte{0x20, 2, 0, 0, 0xD0, 0}))
	} else if withPing {
		// (a DISCONNECT right behind the PINGREQ may end the connection before the PINGRESP is flushed)
		vrtAssert("C09.pipelined_connect_accepted", vrtOr(vrtBytesEq(answered, []byte{0x20, 2, 0, 0, 0xD0, 0}), vrtBytesEq(answered, []byte{0x20, 2, 0, 0})))
	} else {
		vrtAssert("C09.pipelined_connect_accepted", vrtIsConnack(answered, false, 0))
	}
	c.peerClose()
	vrtQuiesce()
	vrtAssert("C09.connection_closed", c.isClosed())
	got, ok := vrtParse(wit.peerTake())
	vrtAssert("C09.stream_wellformed", ok)
	want := 0
	if withPublish {
		want++
	}
	if !withDisconnect {
		want++
	}
	vrtAssert("C09.pipelined_publish_and_will", len(got) == want)
	i := 0
	if withPublish && len(got) == want {
		vrtAssert("C09.pipelined_publish_forwarded", vrtAnd(vrtBytesEq(got[0].Topic, []byte("p")), vrtBytesEq(got[0].Payload, []byte("x"))))
		i++
	}
	if !withDisconnect && len(got) == want {
		vrtAssert("C09.will_topic", vrtBytesEq(got[i].Topic, []byte("gone")))
	}
	vrtReach("C09.pipelined")
}

// H10_broken_reconnect: a reconnect of a client with stored state dies after
// the broker has read the CONNECT and before the CONNACK can be written. If
// that attempt asked for CleanSession=0 the stored session and its
// subscription survive it; if it asked for CleanSession=1 the old state is
// gone and nothing of the attempt's own clean session may be resumed later.
func H10_broken_reconnect() {
	b := vrtBroker("mockSuccess")
	wit, _ := b.connect(vrtConnectPkt([]byte("wit"), true))
	a, _ := b.connect(vrtConnectPkt([]byte("x"), false))
	q := vrtByte("q")
	vrtAssume(q <= 1)
	vrtExchange(a, &specPkt{Typ: specSUBSCRIBE, ID: 1, Topics: [][]byte{[]byte("t")}, QoS: []byte{q}})
	vrtEnd(a, vrtChoice("end", 2))
	// the broken attempt: nothing the broker writes gets through
	attemptClean := vrtBool("broken_attempt_clean")
	c := b.open()
	c.mu.Lock()
	c.failWrites = true
	c.mu.Unlock()
	c.peerSend(specEncode(vrtConnectPkt([]byte("x"), attemptClean)))
	vrtQuiesce()
	c.peerClose()
	vrtQuiesce()
	vrtAssert("C10.connection_closed", c.isClosed())
	wit.peerTake()
	d, ack := b.connect(vrtConnectPkt([]byte("x"), false))
	vrtAssert("C10.session_present_flag", vrtIsConnack(ack, !attemptClean, 0))
	vrtExchange(wit, &specPkt{Typ: specPUBLISH, Flags: 2, ID: 60, Topic: []byte("t"), Payload: []byte("1")})
	got, ok := vrtParse(d.peerTake())
	vrtAssert("C10.stream_wellformed", ok)
	want := 1
	if attemptClean {
		want = 0
	}
	vrtAssert("C10.restored_subscription_delivers", len(got) == want)
	if want == 1 && len(got) == 1 {
		vrtAssert("C10.restored_subscription_qos", (got[0].Flags>>1)&3 == q)
	}
	vrtReach("C10.broken_reconnect")
}

// H09_retained_will_qos: a retained will with QoS >= 1 while a live
// subscription on its topic has a LOWER granted QoS: the live subscriber gets
// the downgraded copy, but what is stored (and handed to a later subscription
// with a higher granted QoS) keeps the QoS given in the CONNECT.
func H09_retained_will_qos() {
	b := vrtBroker("mockSuccess")
	live, _ := b.connect(vrtConnectPkt([]byte("live"), true))
	ql := vrtByte("live_qos")
	vrtAssume(ql <= 2)
	vrtExchange(live, &specPkt{Typ: specSUBSCRIBE, ID: 1, Topics: [][]byte{[]byte("wq")}, QoS: []byte{ql}})
	live.peerTake()
	qw := vrtByte("will_qos")
	vrtAssume(qw <= 2)
	w := vrtWill{flag: true, qos: qw, retain: true, topic: []byte("wq"), payload: []byte("gone")}
	c, ack := b.connect(vrtConnectWithWill([]byte("c"), vrtBool("clean"), w))
	vrtAssert("C09.harness_connack", vrtIsConnack(ack, false, 0))
	vrtEnd(c, 1+vrtChoice("end", 2)) // network drop or keep-alive expiry
	got, ok := vrtParse(live.peerTake())
	vrtAssert("C09.stream_wellformed", ok)
	vrtAssert("C09.will_published_once", len(got) == 1)
	if len(got) == 1 {
		vrtAssert("C09.will_qos", (got[0].Flags>>1)&3 == specMinQos(qw, ql))
		vrtAssert("C09.will_forwarded_without_retain_flag", got[0].Flags&1 == 0)
	}
	vrtAssert("C09.will_retained", b.retainedCount() == 1)
	late, _ := b.connect(vrtConnectPkt([]byte("late"), true))
	ans, ok2 := vrtParse(vrtExchange(late, &specPkt{Typ: specSUBSCRIBE, ID: 1, Topics: [][]byte{[]byte("wq")}, QoS: []byte{2}}))
	vrtAssert("C09.stream_wellformed", ok2 && len(ans) == 2)
	if ok2 && len(ans) == 2 {
		vrtAssert("C09.retained_will_keeps_its_qos", vrtAnd(ans[1].Flags&1 == 1, vrtAnd((ans[1].Flags>>1)&3 == qw, vrtBytesEq(ans[1].Payload, []byte("gone")))))
	}
	vrtReach("C09.retained_will_qos")
}

// H10_unsubscribe_resumed: subscribe on the first connection of a persistent
// session, UNSUBSCRIBE on a resumed second one, resume a third time: the filter
// stays gone (and the one that was kept stays).
func H10_unsubscribe_resumed() {
	b := vrtBroker("mockSuccess")
	wit, _ := b.connect(vrtConnectPkt([]byte("wit"), true))
	c1, _ := b.connect(vrtConnectPkt([]byte("x"), false))
	vrtExchange(c1, &specPkt{Typ: specSUBSCRIBE, ID: 1, Topics: [][]byte{[]byte("t1"), []byte("t2")}, QoS: []byte{1, 0}})
	vrtEnd(c1, vrtChoice("end1", 2))
	c2, ack := b.connect(vrtConnectPkt([]byte("x"), false))
	vrtAssert("C10.session_present_flag", vrtIsConnack(ack, true, 0))
	gone := []byte("t1")
	kept := []byte("t2")
	if vrtBool("unsubscribe_second") {
		gone, kept = kept, gone
	}
	ans := vrtExchange(c2, &specPkt{Typ: specUNSUBSCRIBE, ID: 2, Topics: [][]byte{gone}})
	vrtAssert("C10.harness_unsuback", vrtBytesEq(ans, []byte{0xB0, 2, 0, 2}))
	// on the resumed connection itself: the restored filter is really gone, the kept one can be re-qualified
	vrtExchange(wit, &specPkt{Typ: specPUBLISH, Flags: 2, ID: 50, Topic: gone, Payload: []byte("0")})
	vrtAssert("C10.unsubscribed_filter_stays_gone", len(c2.peerTake()) == 0)
	ans = vrtExchange(c2, &specPkt{Typ: specSUBSCRIBE, ID: 3, Topics: [][]byte{kept}, QoS: []byte{1}})
	vrtAssert("C10.harness_suback", vrtBytesEq(ans, []byte{0x90, 3, 0, 3, 1}))
	vrtExchange(wit, &specPkt{Typ: specPUBLISH, Flags: 2, ID: 51, Topic: kept, Payload: []byte("0")})
	gotk, okk := vrtParse(c2.peerTake())
	vrtAssert("C10.resubscribed_restored_filter_delivers_once", okk && len(gotk) == 1)
	if okk && len(gotk) == 1 {
		vrtAssert("C10.restored_subscription_qos", (gotk[0].Flags>>1)&3 == 1)
	}
	vrtEnd(c2, vrtChoice("end2", 2))
	wit.peerTake()
	c3, ack3 := b.connect(vrtConnectPkt([]byte("x"), false))
	vrtAssert("C10.session_present_flag", vrtIsConnack(ack3, true, 0))
	vrtExchange(wit, &specPkt{Typ: specPUBLISH, Flags: 2, ID: 60, Topic: gone, Payload: []byte("1")})
	vrtAssert("C10.unsubscribed_filter_stays_gone", len(c3.peerTake()) == 0)
	vrtExchange(wit, &specPkt{Typ: specPUBLISH, Flags: 2, ID: 61, Topic: kept, Payload: []byte("2")})
	got, ok := vrtParse(c3.peerTake())
	vrtAssert("C10.restored_subscription_delivers", ok && len(got) == 1)
	// after several CONNACKs with SessionPresent=1: a clean connect and an unknown client id are answered with 0
	_, ackc := b.connect(vrtConnectPkt([]byte("x2"), vrtBool("last_connect_clean")))
	vrtAssert("C10.session_present_flag", vrtIsConnack(ackc, false, 0))
	vrtReach("C10.unsubscribe_resumed")
}

// H10_restored_before_first_answer: the stored subscriptions of a resumed
// session are active again by the time the new connection answers its first
// request: when a filter is put back into the subscription tree (hook on the
// topic store), no answer to a request sent behind the CONNECT has left yet.
func H10_restored_before_first_answer() {
	b := vrtBroker("mockSuccess")
	c1, _ := b.connect(vrtConnectPkt([]byte("x"), false))
	vrtExchange(c1, &specPkt{Typ: specSUBSCRIBE, ID: 1, Topics: [][]byte{[]byte("t1"), []byte("t2")}, QoS: []byte{1, 0}})
	vrtEnd(c1, vrtChoice("end1", 2))
	c := b.open()
	restored := 0
	vrtTopicsHook.onSubscribe = func(f []byte) {
		restored++
		vrtQuiesce() // the re-activation takes its time: whatever else can run, runs first
		c.mu.Lock()
		out := append([]byte(nil), c.out...)
		c.mu.Unlock()
		// only the CONNACK may have been written so far
		vrtAssert("C10.restored_before_first_answer", len(out) <= 4)
	}
	// CONNECT and, right behind it, the first request
	c.peerSend(append(specEncode(vrtConnectPkt([]byte("x"), false)), specEncode(&specPkt{Typ: specPINGREQ})...))
	vrtQuiesce()
	vrtTopicsHook.onSubscribe = nil
	vrtAssert("C10.harness_hook_ran", restored == 2)
	ans, ok := vrtParse(c.peerTake())
	vrtAssert("C10.stream_wellformed", ok && len(ans) == 2)
	vrtReach("C10.restored_before_first_answer")
}

// H10_requalify_resumed: a persistent session subscribes at QoS a, a resumed second connection
// subscribes to the same filter again at QoS b (its SUBACK grants b), a third connection resumes the
// session: deliveries on the second and on the third connection are at min(publish QoS, b) - what the
// last SUBACK granted - and exactly once (round-7 change C01-13: a cached filter list of the session
// kept the QoS of the first subscription, visible only on the third connection).
func H10_requalify_resumed() {
	b := vrtBroker("mockSuccess")
	wit, _ := b.connect(vrtConnectPkt([]byte("wit"), true))
	qa, qb := vrtByte("qos_first"), vrtByte("qos_second")
	vrtAssume(vrtAnd(qa <= 2, qb <= 2))
	qa, qb = vrtConcretizeByte(qa), vrtConcretizeByte(qb)
	F := []byte("t1")
	if vrtBool("wildcard") {
		F = []byte("+")
	}
	c1, _ := b.connect(vrtConnectPkt([]byte("x"), false))
	ans := vrtExchange(c1, &specPkt{Typ: specSUBSCRIBE, ID: 1, Topics: [][]byte{F, []byte("other")}, QoS: []byte{qa, 1}})
	vrtAssert("C10.harness_suback", vrtBytesEq(ans, []byte{0x90, 4, 0, 1, qa, 1}))
	vrtEnd(c1, vrtChoice("end1", 2))
	c2, ack := b.connect(vrtConnectPkt([]byte("x"), false))
	vrtAssert("C10.session_present_flag", vrtIsConnack(ack, true, 0))
	ans = vrtExchange(c2, &specPkt{Typ: specSUBSCRIBE, ID: 2, Topics: [][]byte{F}, QoS: []byte{qb}})
	vrtAssert("C10.harness_suback", vrtBytesEq(ans, []byte{0x90, 3, 0, 2, qb}))
	check := func(c *vrtConn, tag string, id uint16) {
		wit.peerTake()
		vrtExchange(wit, &specPkt{Typ: specPUBLISH, Flags: 4, ID: id, Topic: []byte("t1"), Payload: []byte(tag)}, &specPkt{Typ: specPUBREL, Flags: 2, ID: id})
		got, ok := vrtParse(c.peerTake())
		vrtAssert("C10.requalified_subscription_delivers_once."+tag, ok && len(got) == 1 && got[0].Typ == specPUBLISH)
		if ok && len(got) == 1 {
			vrtAssert("C10.requalified_subscription_qos."+tag, (got[0].Flags>>1)&3 == qb)
			vrtAssert("C10.requalified_subscription_content."+tag, vrtAnd(vrtBytesEq(got[0].Topic, []byte("t1")), vrtBytesEq(got[0].Payload, []byte(tag))))
		}
	}
	check(c2, "second", 70)
	vrtEnd(c2, vrtChoice("end2", 2))
	c3, ack3 := b.connect(vrtConnectPkt([]byte("x"), false))
	vrtAssert("C10.session_present_flag", vrtIsConnack(ack3, true, 0))
	check(c3, "third", 71)
	if qa != qb {
		vrtReach("C10.requalified")
	}
}

// H10_refused_connect: a CONNECT that is REFUSED (wrong credentials, under an authenticator whose verdict
// depends on them) carries the client identifier of a stored persistent session - with the clean flag
// set or not - or an identifier nobody used yet. Nothing of it may stick: the rightful client's next
// CleanSession=0 CONNECT is answered SessionPresent=1 and its subscription still delivers; a first
// accepted CONNECT of the fresh identifier is answered SessionPresent=0; the store holds what it held
// (round-7 change C10-14 looked the session up before it asked the authenticator).
func H10_refused_connect() {
	if !vrtCredAuthRegistered {
		auth.Register("vrtcred", vrtCredAuth{})
		vrtCredAuthRegistered = true
	}
	b := vrtBroker("vrtcred")
	withCred := func(p *specPkt, good bool) *specPkt {
		p.CFlags |= 0xC0
		p.User, p.Pass = []byte("u"), []byte("p")
		if !good {
			p.Pass = []byte("q")
		}
		return p
	}
	wit, _ := b.connect(withCred(vrtConnectPkt([]byte("wit"), true), true))
	c1, ack1 := b.connect(withCred(vrtConnectPkt([]byte("x"), false), true))
	vrtAssert("C10.session_present_flag", vrtIsConnack(ack1, false, 0))
	vrtExchange(c1, &specPkt{Typ: specSUBSCRIBE, ID: 1, Topics: [][]byte{[]byte("t1")}, QoS: []byte{1}})
	stillConnected := vrtBool("owner_still_connected")
	if !stillConnected {
		vrtEnd(c1, vrtChoice("end1", 2))
	}
	before := b.svr.sessMgr.Count()
	// the refused CONNECT: same identifier (clean or not) or a fresh one
	id := []byte("x")
	fresh := vrtBool("fresh_identifier")
	if fresh {
		id = []byte("y")
	}
	bad, ackb := b.connect(withCred(vrtConnectPkt(id, vrtBool("refused_clean")), false))
	vrtAssert("C10.harness_refused", vrtIsConnack(ackb, false, 4))
	vrtAssert("C10.refused_closed", bad.isClosed())
	vrtAssert("C10.refused_connect_leaves_the_store_alone", b.svr.sessMgr.Count() == before)
	if stillConnected {
		// the owner's live connection is untouched
		vrtExchange(wit, &specPkt{Typ: specPUBLISH, Flags: 2, ID: 9, Topic: []byte("t1"), Payload: []byte("l")})
		got, ok := vrtParse(c1.peerTake())
		vrtAssert("C10.live_subscription_survives_refused_connect", ok && len(got) == 1 && !c1.isClosed())
		vrtEnd(c1, vrtChoice("end1", 2))
	}
	wit.peerTake()
	c2, ack2 := b.connect(withCred(vrtConnectPkt([]byte("x"), false), true))
	vrtAssert("C10.session_present_flag", vrtIsConnack(ack2, true, 0))
	vrtExchange(wit, &specPkt{Typ: specPUBLISH, Flags: 2, ID: 10, Topic: []byte("t1"), Payload: []byte("r")})
	got, ok := vrtParse(c2.peerTake())
	vrtAssert("C10.restored_subscription_delivers", ok && len(got) == 1)
	if fresh {
		_, ack3 := b.connect(withCred(vrtConnectPkt([]byte("y"), false), true))
		vrtAssert("C10.session_present_flag", vrtIsConnack(ack3, false, 0))
	}
	vrtReach("C10.refused_connect")
}

// H09_will_same_id: the witness still has an unacknowledged QoS 1 / QoS 2 delivery in flight whose packet
// identifier (chosen by its publisher, a solver variable) may equal the identifier the broker's own
// generator gives the will message. The will must reach the witness all the same, exactly once (round-7
// change C09-13: the outgoing queue refused a second entry with an identifier still in flight and the
// message was dropped instead of sent).
func H09_will_same_id() {
	b := vrtBroker("mockSuccess")
	gq := 1 + byte(vrtChoice("granted", 2))
	wit, _ := b.connect(vrtConnectPkt([]byte("wit"), true))
	vrtExchange(wit, &specPkt{Typ: specSUBSCRIBE, ID: 1, Topics: [][]byte{[]byte("w")}, QoS: []byte{gq}})
	wit.peerTake()
	p, _ := b.connect(vrtConnectPkt([]byte("p"), true))
	x := vrtUint16("id_in_flight")
	vrtAssume(x != 0)
	if gq == 1 {
		vrtExchange(p, &specPkt{Typ: specPUBLISH, Flags: 2, ID: x, Topic: []byte("w"), Payload: []byte("live")})
	} else {
		vrtExchange(p, &specPkt{Typ: specPUBLISH, Flags: 4, ID: x, Topic: []byte("w"), Payload: []byte("live")}, &specPkt{Typ: specPUBREL, Flags: 2, ID: x})
	}
	got, ok := vrtParse(wit.peerTake())
	vrtAssert("C09.harness_first_delivery", ok && len(got) == 1 && vrtBytesEq(got[0].Payload, []byte("live")))
	// (the witness does not acknowledge it)
	c, _ := b.connect(vrtConnectWithWill([]byte("c"), true, vrtWill{flag: true, qos: gq, topic: []byte("w"), payload: []byte("will")}))
	c.peerClose()
	vrtQuiesce()
	got, ok = vrtParse(wit.peerTake())
	vrtAssert("C09.will_published_once", ok && len(got) == 1)
	if ok && len(got) == 1 {
		vrtAssert("C09.will_content", vrtAnd(got[0].Typ == specPUBLISH, vrtAnd(vrtBytesEq(got[0].Topic, []byte("w")), vrtBytesEq(got[0].Payload, []byte("will")))))
		vrtAssert("C09.will_qos", (got[0].Flags>>1)&3 == gq)
		if got[0].ID == x {
			vrtReach("C09.will_id_collides_with_one_in_flight")
		}
	}
	vrtReach("C09.will_same_id")
}

// H10m_many_filters: a persistent session with MANY subscriptions (17, 65, 130 or 300 filters, made over
// one to four SUBSCRIBE packets, granted QoS 0..2 in rotation) is resumed: SessionPresent=1 and a publish
// to the first, a middle and the last filter is delivered at min(publish QoS, granted QoS) without any
// re-subscription; after the resumed connection unsubscribes one of them and the session is resumed once
// more, that one stays gone and its neighbours stay (round-8 change C10-15: the session stopped recording
// filters beyond the 64th while the live connection kept working).
func H10m_many_filters() {
	topics.MaxQosAllowed = 2
	b := vrtBroker("mockSuccess")
	w, _ := b.connect(vrtConnectPkt([]byte("w"), true))
	ns := []int{17, 65, 130, 300}
	if vrtBound("N10many", 300) < 300 {
		ns = ns[:3]
	}
	n := ns[vrtChoice("nfilters", len(ns))]
	per := []int{n, 50, 100}[vrtChoice("per_packet", 3)]
	name := func(i int) []byte { return []byte{'f', byte('0' + i/64), byte('0' + i%64)} }
	c1, ack := b.connect(vrtConnectPkt([]byte("x"), false))
	vrtAssert("C10.session_present_flag", vrtIsConnack(ack, false, 0))
	id := uint16(1)
	for lo := 0; lo < n; lo += per {
		sub := &specPkt{Typ: specSUBSCRIBE, ID: id}
		var codes []byte
		for i := lo; i < lo+per && i < n; i++ {
			sub.Topics = append(sub.Topics, name(i))
			sub.QoS = append(sub.QoS, byte(i%3))
			codes = append(codes, byte(i%3))
		}
		ans := vrtExchange(c1, sub)
		vrtAssert("C10.harness_suback", vrtBytesEq(ans, specEncode(&specPkt{Typ: specSUBACK, ID: id, Codes: codes})))
		id++
	}
	vrtEnd(c1, vrtChoice("end1", 2))
	vrtAssert("C10.store_size", b.svr.sessMgr.Count() == 2) // the persistent session and the live witness
	idx := []int{0, 63, 64, n / 2, n - 1}[vrtChoice("which", 5)]
	if idx >= n {
		return
	}
	check := func(c *vrtConn, i int, want bool, tag string) {
		c.peerTake()
		vrtExchange(w, &specPkt{Typ: specPUBLISH, Flags: 2, ID: 77, Topic: name(i), Payload: []byte(tag)})
		got, ok := vrtParse(c.peerTake())
		vrtAssert("C10.stream_wellformed", ok)
		if !want {
			vrtAssert("C10.unsubscribed_filter_stays_gone", len(got) == 0)
			return
		}
		vrtAssert("C10.restored_subscription_delivers", len(got) == 1 && got[0].Typ == specPUBLISH)
		if len(got) == 1 {
			vrtAssert("C10.restored_subscription_qos", (got[0].Flags>>1)&3 == specMinQos(1, byte(i%3)))
			vrtAssert("C10.restored_subscription_content", vrtAnd(vrtBytesEq(got[0].Topic, name(i)), vrtBytesEq(got[0].Payload, []byte(tag))))
		}
	}
	c2, ack2 := b.connect(vrtConnectPkt([]byte("x"), false))
	vrtAssert("C10.session_present_flag", vrtIsConnack(ack2, true, 0))
	check(c2, idx, true, "second")
	ans := vrtExchange(c2, &specPkt{Typ: specUNSUBSCRIBE, ID: 90, Topics: [][]byte{name(idx)}})
	vrtAssert("C10.harness_unsuback", vrtBytesEq(ans, []byte{0xb0, 2, 0, 90}))
	vrtEnd(c2, vrtChoice("end2", 2))
	c3, ack3 := b.connect(vrtConnectPkt([]byte("x"), false))
	vrtAssert("C10.session_present_flag", vrtIsConnack(ack3, true, 0))
	check(c3, idx, false, "third")
	other := idx + 1
	if other >= n {
		other = idx - 1
	}
	check(c3, other, true, "neighbour")
	vrtReach("C10.many_filters")
}
