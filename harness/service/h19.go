//go:build verif

package service

// C19: keep-alive. The keep-alive K of the CONNECT and the clock are solver
// variables. (a) the read deadline armed for the connection is now + d with
// K s <= d <= 1.5 K s (K = 0 counts as the 30 s default), and it is re-armed
// before every socket read; (b) a silent client whose deadline passes is
// dropped as failed (will published); (c) a client that sends something at
// gaps below K is never dropped, and every PINGREQ gets its PINGRESP.

const vrtSecond = int64(1000000000)

func (c *vrtConn) armState() (deadlineNS, armedAt int64, arms, readsSinceArm int) {
	c.mu.Lock()
	defer c.mu.Unlock()
	return vrtTimeNS(c.deadline), c.armedAt, c.arms, c.readsSinceArm
}

func vrtCheckArmed(c *vrtConn, K int64, tag string) {
	dl, at, _, reads := c.armState()
	d := dl - at
	vrtAssert("C19.deadline_at_least_keepalive."+tag, d >= K*vrtSecond)
	vrtAssert("C19.deadline_at_most_one_and_a_half."+tag, 2*d <= 3*K*vrtSecond)
	vrtAssert("C19.rearmed_for_this_read."+tag, reads == 1)
}

func H19_keepalive() {
	b := vrtBroker("mockSuccess")
	wit, _ := b.connect(vrtConnectPkt([]byte("wit"), true))
	vrtExchange(wit, &specPkt{Typ: specSUBSCRIBE, ID: 1, Topics: [][]byte{[]byte("#")}, QoS: []byte{0}})
	wit.peerTake()
	start := vrtInt64("t0")
	vrtAssume(vrtAnd(start >= 0, start < 1<<40))
	vrtClockSet(start)
	ka := vrtUint16("keepalive")
	K := int64(ka)
	if ka == 0 {
		K = 30
	}
	// the connection under test may resume a stored session whose previous connection
	// (same CONNECT) ended with DISCONNECT
	resumed := vrtBool("resumed_after_disconnect")
	p := vrtConnectPkt([]byte("c"), !resumed)
	p.KeepAlive = ka
	p.CFlags |= 4 // will "gone"/"x", QoS 0
	p.WillTopic, p.WillMsg = []byte("gone"), []byte("x")
	if resumed {
		c0, _ := b.connect(p)
		vrtExchange(c0, &specPkt{Typ: specDISCONNECT})
		c0.peerClose()
		vrtQuiesce()
		vrtAssert("C19.harness_no_will_after_disconnect", len(wit.peerTake()) == 0)
	}
	c, ack := b.connect(p)
	vrtAssert("C19.harness_connack", vrtIsConnack(ack, resumed, 0))
	vrtCheckArmed(c, K, "after_connect")
	now := start
	steps := vrtBound("N19steps", 3)
	for i := 0; i < steps; i++ {
		// the client is active: something arrives after a gap below K
		gap := vrtInt64("gap")
		vrtAssume(vrtAnd(gap >= 0, gap < K*vrtSecond))
		dl, _, armsBefore, _ := c.armState()
		now += gap
		vrtClockSet(now)
		vrtAssert("C19.active_client_deadline_not_passed", now < dl)
		if vrtBool("ping") {
			pong := vrtExchange(c, &specPkt{Typ: specPINGREQ})
			vrtAssert("C19.pingresp", vrtBytesEq(pong, []byte{0xD0, 0}))
		} else {
			vrtExchange(c, &specPkt{Typ: specPUBLISH, Topic: []byte("a"), Payload: []byte("1")})
			vrtAssert("C19.publish_forwarded", len(wit.peerTake()) > 0)
		}
		vrtAssert("C19.active_client_not_dropped", !c.isClosed())
		_, _, armsAfter, _ := c.armState()
		vrtAssert("C19.rearmed_after_traffic", armsAfter > armsBefore)
		vrtCheckArmed(c, K, "after_traffic")
	}
	wit.peerTake()
	// what the broker SENDS to the client is not activity of the client: a silent subscriber on a busy topic
	if vrtBool("receives_traffic") {
		vrtExchange(c, &specPkt{Typ: specSUBSCRIBE, ID: 9, Topics: [][]byte{[]byte("d")}, QoS: []byte{0}})
		c.peerTake()
		dl0, _, arms0, _ := c.armState()
		vrtExchange(wit, &specPkt{Typ: specPUBLISH, Topic: []byte("d"), Payload: []byte("1")})
		vrtAssert("C19.harness_traffic_delivered", len(c.peerTake()) > 0)
		dl1, _, arms1, _ := c.armState()
		vrtAssert("C19.outbound_traffic_does_not_rearm", vrtAnd(dl1 == dl0, arms1 == arms0))
		wit.peerTake()
	}
	// now the client falls silent - on a packet boundary or in the middle of a packet
	switch vrtChoice("last_bytes", 3) {
	case 1:
		c.peerSend([]byte{0x30}) // only the first byte of the fixed header
		vrtQuiesce()
	case 2:
		c.peerSend([]byte{0x30, 0x05, 0x00}) // a PUBLISH announcing more than is ever sent
		vrtQuiesce()
	}
	vrtAssert("C19.incomplete_packet_keeps_connection", !c.isClosed())
	// the armed deadline passes
	dl, _, _, _ := c.armState()
	vrtClockSet(dl + 1)
	c.peerExpireDeadline()
	vrtQuiesce()
	vrtAssert("C19.silent_client_dropped", c.isClosed())
	got, ok := vrtParse(wit.peerTake())
	vrtAssert("C19.silent_client_is_a_failure", vrtAnd(ok, len(got) == 1))
	if len(got) == 1 {
		vrtAssert("C19.will_published", vrtAnd(vrtBytesEq(got[0].Topic, []byte("gone")), vrtBytesEq(got[0].Payload, []byte("x"))))
	}
	vrtObserve("ka", c.isClosed(), len(got))
	vrtReach("C19.done")
}

// H19b_dead_subscriber: the client is completely dead (neither sends nor
// reads) while another client keeps publishing to its subscription until its
// outbound ring is full and the publisher's delivery blocks; when the
// keep-alive deadline passes, it is still dropped as failed (will published)
// and the publisher's connection comes back to life.
func H19b_dead_subscriber() {
	b := vrtBroker("mockSuccess")
	wit, _ := b.connect(vrtConnectPkt([]byte("wit"), true))
	vrtExchange(wit, &specPkt{Typ: specSUBSCRIBE, ID: 1, Topics: [][]byte{[]byte("gone")}, QoS: []byte{0}})
	wit.peerTake()
	pub, _ := b.connect(vrtConnectPkt([]byte("pub"), true))
	p := vrtConnectPkt([]byte("c"), vrtBool("clean"))
	p.KeepAlive = 5
	p.CFlags |= 4
	p.WillTopic, p.WillMsg = []byte("gone"), []byte("x")
	c, _ := b.connect(p)
	vrtExchange(c, &specPkt{Typ: specSUBSCRIBE, ID: 1, Topics: [][]byte{[]byte("d")}, QoS: []byte{0}})
	c.peerTake()
	c.peerStall(100)
	selfFlood := vrtBound("N19selfflood", 1) == 1 && vrtBool("floods_itself")
	if selfFlood {
		// the client published to its own subscription without reading: its own processor is stuck in its own ring
		for i := 0; i < 4; i++ {
			c.peerSend(specEncode(vrtBigPublish("d", byte(i))))
		}
		vrtQuiesce()
	} else {
		for i := 0; i < 3; i++ {
			pub.peerSend(specEncode(vrtBigPublish("d", byte(i))))
		}
		pub.peerSend(specEncode(&specPkt{Typ: specPINGREQ}))
		vrtQuiesce()
		vrtAssert("C19.harness_publisher_held_up", len(pub.peerTake()) == 0)
	}
	if vrtBool("pings_before_dying") {
		// its last sign of life: the answer cannot be queued (the blocked publisher holds the connection's write mutex)
		c.peerSend(specEncode(&specPkt{Typ: specPINGREQ}))
		vrtQuiesce()
	}
	vrtAssert("C19.incomplete_packet_keeps_connection", !c.isClosed())
	c.peerExpireDeadline()
	vrtQuiesce()
	vrtAssert("C19.silent_client_dropped", c.isClosed())
	got, ok := vrtParse(wit.peerTake())
	vrtAssert("C19.silent_client_is_a_failure", vrtAnd(ok, len(got) == 1))
	if len(got) == 1 {
		vrtAssert("C19.will_published", vrtAnd(vrtBytesEq(got[0].Topic, []byte("gone")), vrtBytesEq(got[0].Payload, []byte("x"))))
	}
	if !selfFlood {
		vrtAssert("C19.publisher_answered_after_drop", vrtBytesEq(pub.peerTake(), []byte{0xD0, 0}))
	}
	vrtReach("C19.dead_subscriber_dropped")
}

// H19c_ping_during_large_publish: a subscriber that reads slowly is in the
// middle of receiving a PUBLISH larger than one write block when it pings: the
// PINGRESP comes after the complete PUBLISH, never inside it.
func H19c_ping_during_large_publish() {
	b := vrtBroker("mockSuccess")
	pub, _ := b.connect(vrtConnectPkt([]byte("pub"), true))
	c, _ := b.connect(vrtConnectPkt([]byte("c"), true))
	vrtExchange(c, &specPkt{Typ: specSUBSCRIBE, ID: 1, Topics: [][]byte{[]byte("d")}, QoS: []byte{0}})
	c.peerTake()
	c.peerStall(100) // the first block still goes through, the rest of the packet waits
	big := vrtBigPublish("d", 7)
	pub.peerSend(specEncode(big))
	vrtQuiesce()
	c.peerSend(specEncode(&specPkt{Typ: specPINGREQ}))
	vrtQuiesce()
	vrtAssert("C19.single_writer_per_connection", c.blockedWriters() <= 1)
	c.peerStall(0) // the client reads again
	vrtQuiesce()
	got, ok := vrtParse(c.peerTake())
	vrtAssert("C19.stream_wellformed_around_ping", ok)
	good := ok && len(got) == 2
	if good {
		good = got[0].Typ == specPUBLISH && len(got[0].Payload) == vrtBig && got[1].Typ == specPINGRESP
	}
	if good {
		good = got[0].Payload[0] == 7 && got[0].Payload[vrtBig-1] == 7
	}
	vrtAssert("C19.pingresp_after_the_whole_publish", good)
	vrtReach("C19.ping_during_large_publish")
}

// H19d_block_boundary: an active client whose transmission ends exactly where the receiver's read block
// ends (8192 bytes in one burst - the socket read returns a completely filled block), one byte short of
// it, one byte beyond it, or exactly two blocks. The read that follows - the one that waits for the
// client's next packet - must be armed with a fresh deadline of 1..1.5 keep-alive periods counted from
// that moment, and a PINGREQ sent later, within the keep-alive period, is answered (round-8 change C19-15:
// "the burst is still draining" - no re-arming after a read that filled its block).
func H19d_block_boundary() {
	b := vrtBroker("mockSuccess")
	start := vrtInt64("t0")
	vrtAssume(vrtAnd(start >= 0, start < 1<<40))
	vrtClockSet(start)
	// (the deadline arithmetic for every keep-alive value is decided in H19_keepalive; here three values)
	ka := []uint16{1, 60, 65535}[vrtChoice("keepalive", 3)]
	K := int64(ka)
	p := vrtConnectPkt([]byte("c"), true)
	p.KeepAlive = ka
	c, ack := b.connect(p)
	vrtAssert("C19.harness_connack", vrtIsConnack(ack, false, 0))
	bursts := [][]int{{8191}, {8192}, {8093, 100}, {8192, 8192}}
	gap := vrtInt64("gap")
	vrtAssume(vrtAnd(gap >= 0, gap < K*vrtSecond))
	now := start + gap
	vrtClockSet(now)
	var burst []byte
	for _, sz := range bursts[vrtChoice("burst", len(bursts))] {
		// a QoS 0 PUBLISH of sz bytes on the wire: 1 + length field + 2 + len("a") + payload
		lf := 2
		if sz-2 < 128 {
			lf = 1
		}
		payload := make([]byte, sz-1-lf-3)
		for i := range payload {
			payload[i] = byte('a' + i%23)
		}
		pk := specEncode(&specPkt{Typ: specPUBLISH, Topic: []byte("a"), Payload: payload})
		vrtAssert("C19.harness_packet_size", len(pk) == sz)
		burst = append(burst, pk...)
	}
	c.peerSend(burst)
	vrtQuiesce()
	vrtAssert("C19.active_client_not_dropped", !c.isClosed())
	vrtCheckArmed(c, K, "after_full_block")
	dl, _, _, _ := c.armState()
	vrtAssert("C19.deadline_counts_from_the_last_bytes", dl >= now+K*vrtSecond)
	// within the keep-alive period the client pings
	gap2 := vrtInt64("gap2")
	vrtAssume(vrtAnd(gap2 >= 0, gap2 < K*vrtSecond))
	now += gap2
	vrtClockSet(now)
	vrtAssert("C19.active_client_deadline_not_passed", now < dl)
	pong := vrtExchange(c, &specPkt{Typ: specPINGREQ})
	vrtAssert("C19.pingresp", vrtBytesEq(pong, []byte{0xD0, 0}))
	vrtReach("C19.block_boundary")
}
