//go:build verif

package service

// C19: keep-alive. The keep-alive K of the CONNECT and the clock are solver
// variables. (a) the read deadline armed for the connection is now + d with
// K s <= d <= 1.5 K s (K = 0 counts as the 30 s default), and it is re-armed
// before every socket read; (b) a silent client whose deadline passes is
// dropped as failed (will published); (c) a client that sends something at
// gaps below K is never dropped, and every PINGREQ gets its PINGRESP.

const vrtSecond = int64(1000000000)

func (c *vrtConn) armState() (deadlineNS, armedAt int64, arms, readsSinceArm int) {
	c.mu.Lock()
	defer c.mu.Unlock()
	return vrtTimeNS(c.deadline), c.armedAt, c.arms, c.readsSinceArm
}

func vrtCheckArmed(c *vrtConn, K int64, tag string) {
	dl, at, _, reads := c.armState()
	d := dl - at
	vrtAssert("C19.deadline_at_least_keepalive."+tag, d >= K*vrtSecond)
	vrtAssert("C19.deadline_at_most_one_and_a_half."+tag, 2*d <= 3*K*vrtSecond)
	vrtAssert("C19.rearmed_for_this_read."+tag, reads == 1)
}

func H19_keepalive() {
	b := vrtBroker("mockSuccess")
	wit, _ := b.connect(vrtConnectPkt([]byte("wit"), true))
	vrtExchange(wit, &specPkt{Typ: specSUBSCRIBE, ID: 1, Topics: [][]byte{[]byte("#")}, QoS: []byte{0}})
	wit.peerTake()
	start := vrtInt64("t0")
	vrtAssume(vrtAnd(start >= 0, start < 1<<40))
	vrtClockSet(start)
	ka := vrtUint16("keepalive")
	K := int64(ka)
	if ka == 0 {
		K = 30
	}
	// the connection under test may resume a stored session whose previous connection
	// (same CONNECT) ended with DISCONNECT
	resumed := vrtBool("resumed_after_disconnect")
	p := vrtConnectPkt([]byte("c"), !resumed)
	p.KeepAlive = ka
	p.CFlags |= 4 // will "gone"/"x", QoS 0
	p.WillTopic, p.WillMsg = []byte("gone"), []byte("x")
	if resumed {
		c0, _ := b.connect(p)
		vrtExchange(c0, &specPkt{Typ: specDISCONNECT})
		c0.peerClose()
		vrtQuiesce()
		vrtAssert("C19.harness_no_will_after_disconnect", len(wit.peerTake()) == 0)
	}
	c, ack := b.connect(p)
	vrtAssert("C19.harness_connack", vrtIsConnack(ack, resumed, 0))
	vrtCheckArmed(c, K, "after_connect")
	now := start
	steps := vrtBound("N19steps", 3)
	for i := 0; i < steps; i++ {
		// the client is active: something arrives after a gap below K
		gap := vrtInt64("gap")
		vrtAssume(vrtAnd(gap >= 0, gap < K*vrtSecond))
		dl, _, armsBefore, _ := c.armState()
		now += gap
		vrtClockSet(now)
		vrtAssert("C19.active_client_deadline_not_passed", now < dl)
		if vrtBool("ping") {
			pong := vrtExchange(c, &specPkt{Typ: specPINGREQ})
			vrtAssert("C19.pingresp", vrtBytesEq(pong, []byte{0xD0, 0}))
		} else {
			vrtExchange(c, &specPkt{Typ: specPUBLISH, Topic: []byte("a"), Payload: []byte("1")})
			vrtAssert("C19.publish_forwarded", len(wit.peerTake()) > 0)
		}
		vrtAssert("C19.active_client_not_dropped", !c.isClosed())
		_, _, armsAfter, _ := c.armState()
		vrtAssert("C19.rearmed_after_traffic", armsAfter > armsBefore)
		vrtCheckArmed(c, K, "after_traffic")
	}
	wit.peerTake()
	// now the client falls silent - on a packet boundary or in the middle of a packet
	switch vrtChoice("last_bytes", 3) {
	case 1:
		c.peerSend([]byte{0x30}) // only the first byte of the fixed header
		vrtQuiesce()
	case 2:
		c.peerSend([]byte{0x30, 0x05, 0x00}) // a PUBLISH announcing more than is ever sent
		vrtQuiesce()
	}
	vrtAssert("C19.incomplete_packet_keeps_connection", !c.isClosed())
	// the armed deadline passes
	dl, _, _, _ := c.armState()
	vrtClockSet(dl + 1)
	c.peerExpireDeadline()
	vrtQuiesce()
	vrtAssert("C19.silent_client_dropped", c.isClosed())
	got, ok := vrtParse(wit.peerTake())
	vrtAssert("C19.silent_client_is_a_failure", vrtAnd(ok, len(got) == 1))
	if len(got) == 1 {
		vrtAssert("C19.will_published", vrtAnd(vrtBytesEq(got[0].Topic, []byte("gone")), vrtBytesEq(got[0].Payload, []byte("x"))))
	}
	vrtObserve("ka", c.isClosed(), len(got))
	vrtReach("C19.done")
}
