//go:build verif

package service

import "io"

// C14: the byte ring is a lossless FIFO. Sequential step lemmas (DESIGN.md
// A.5): ONE buffer operation from an ARBITRARY cursor state (every wrap
// position: cursors are 63-bit solver variables), ring contents held in one
// SMT array. Consumer lemma: returns exactly the stream bytes at the consumer
// cursor, never more than committed, advances cseq only by what it consumed.
// Producer lemma: leaves [cseq,pseq) untouched, places the new bytes at
// [pseq,pseq+n), never overtakes cseq+size.

const vrtW = 8 // number of named stream bytes after the consumer cursor

type vrtRingState struct {
	bf       *buffer
	c, p     int64  // cseq, pseq before the operation
	avail    int64
	s        []byte // s[i] = byte at stream position c+i (i < vrtW)
	probe    int64  // an arbitrary committed position c <= probe < p
	probeVal byte
	hasProbe bool
}

func vrtRing(maxAvail int64) *vrtRingState {
	bf, err := newBuffer(1)
	if err != nil {
		panic(err)
	}
	bf.buf = vrtArrayBytes(int(bf.size))
	st := &vrtRingState{bf: bf}
	st.c = vrtInt64("cseq")
	vrtAssume(vrtAnd(st.c >= 0, st.c < 1<<61))
	st.avail = vrtInt64("avail")
	vrtAssume(vrtAnd(st.avail >= 0, st.avail <= maxAvail))
	st.p = st.c + st.avail
	gate := vrtInt64("gate")
	vrtAssume(vrtAnd(gate >= 0, gate <= st.c))
	bf.cseq.set(st.c)
	bf.pseq.set(st.p)
	bf.pseq.gate = gate
	// the scratch buffer for chunks that cross the end of the ring still holds an earlier chunk
	bf.tmp = append(make([]byte, 0, 32), 0xA5, 0xA6, 0xA7, 0xA8, 0xA9)
	for i := 0; i < vrtW; i++ {
		b := vrtByte("s")
		st.s = append(st.s, b)
		bf.buf[(st.c+int64(i))&bf.mask] = b
	}
	if vrtBool("hasprobe") {
		st.probe = vrtInt64("probe")
		vrtAssume(vrtAnd(st.probe >= st.c, st.probe < st.p))
		st.probeVal = bf.buf[st.probe&bf.mask]
		st.hasProbe = true
	}
	return st
}

func (st *vrtRingState) untouched(name string) {
	if st.hasProbe {
		vrtAssert(name, st.bf.buf[st.probe&st.bf.mask] == st.probeVal)
	}
}

func H14_write() {
	st := vrtRing(16384)
	bf := st.bf
	w := vrtBytesL("w", vrtBound("N14chunk", 4))
	n := int64(len(w))
	vrtAssume(st.avail+n <= bf.size) // otherwise the producer blocks (C15)
	m, err := bf.Write(w)
	vrtAssert("C14.write_ok", vrtAnd(err == nil, int64(m) == n))
	vrtAssert("C14.write_cursor", vrtAnd(bf.pseq.get() == st.p+n, bf.cseq.get() == st.c))
	vrtAssert("C14.write_within_capacity", bf.pseq.get() <= bf.cseq.get()+bf.size)
	for i := int64(0); i < n; i++ {
		vrtAssert("C14.write_bytes_in_place", bf.buf[(st.p+i)&bf.mask] == w[i])
	}
	st.untouched("C14.write_keeps_unread")
	vrtObserve("write", m, err)
	vrtReach("C14.write")
}

func H14_writewait_commit() {
	st := vrtRing(16384)
	bf := st.bf
	n := vrtInt("n", 0, vrtBound("N14chunk", 4))
	vrtAssume(st.avail+int64(n) <= bf.size)
	b, wrap, err := bf.WriteWait(n)
	vrtAssert("C14.writewait_ok", err == nil)
	vrtAssert("C14.writewait_no_cursor_change", vrtAnd(bf.pseq.get() == st.p, bf.cseq.get() == st.c))
	pstart := st.p & bf.mask
	if wrap {
		vrtAssert("C14.writewait_wrap_means_short", vrtAnd(int64(len(b)) == bf.size-pstart, int64(len(b)) < int64(n)))
		vrtReach("C14.writewait_wrap")
		return
	}
	vrtAssert("C14.writewait_len", len(b) == n)
	// the reserved region is the ring at the producer cursor: write through it, then commit
	for i := 0; i < len(b); i++ {
		b[i] = byte(0xA0 + i)
	}
	c, err2 := bf.WriteCommit(n)
	vrtAssert("C14.commit_ok", vrtAnd(err2 == nil, c == n))
	vrtAssert("C14.commit_cursor", vrtAnd(bf.pseq.get() == st.p+int64(n), bf.cseq.get() == st.c))
	for i := 0; i < n; i++ {
		vrtAssert("C14.reserved_is_ring", bf.buf[(st.p+int64(i))&bf.mask] == byte(0xA0+i))
	}
	st.untouched("C14.commit_keeps_unread")
	vrtObserve("ww", len(b), wrap, c)
	vrtReach("C14.writewait")
}

func H14_read() {
	st := vrtRing(16384)
	bf := st.bf
	n := vrtChoice("n", vrtBound("N14chunk", 4)+1)
	vrtAssume(st.avail >= 1) // otherwise the consumer blocks (C15)
	dst := make([]byte, n)
	m, err := bf.Read(dst)
	vrtAssert("C14.read_ok", err == nil)
	lim := vrtIteInt(st.avail < int64(n), int(st.avail), n)
	vrtAssert("C14.read_not_more_than_committed", vrtAnd(m >= 0, m <= lim))
	vrtAssert("C14.read_progress", vrtImplies(n > 0, m > 0))
	vrtAssert("C14.read_cursor", vrtAnd(bf.cseq.get() == st.c+int64(m), bf.pseq.get() == st.p))
	mm := vrtConcretize(m)
	for i := 0; i < mm && i < vrtW; i++ {
		vrtAssert("C14.read_stream_bytes", dst[i] == st.s[i])
	}
	st.untouched("C14.read_keeps_ring")
	vrtObserve("read", m, err, dst)
	vrtReach("C14.read")
}

func H14_readpeek_commit() {
	st := vrtRing(16384)
	bf := st.bf
	n := vrtInt("n", -1, vrtBound("N14chunk", 4)+1)
	vrtAssume(st.avail >= 1)
	b, err := bf.ReadPeek(n)
	if n < 0 {
		vrtAssert("C14.peek_negative_refused", vrtAnd(err != nil, len(b) == 0))
		return
	}
	enough := st.avail >= int64(n)
	vrtAssert("C14.peek_error_iff_short", (err == nil) == enough)
	vrtAssert("C14.peek_error_kind", vrtOr(err == nil, err == ErrBufferInsufficientData))
	want := vrtIteInt(enough, n, int(st.avail))
	vrtAssert("C14.peek_len", len(b) == want)
	vrtAssert("C14.peek_no_cursor_change", vrtAnd(bf.cseq.get() == st.c, bf.pseq.get() == st.p))
	l := vrtConcretize(len(b))
	for i := 0; i < l && i < vrtW; i++ {
		vrtAssert("C14.peek_stream_bytes", b[i] == st.s[i])
	}
	k := vrtInt("commit", 0, vrtW)
	vrtAssume(k <= l)
	c, err2 := bf.ReadCommit(k)
	vrtAssert("C14.readcommit_ok", vrtAnd(err2 == nil, c == k))
	vrtAssert("C14.readcommit_cursor", vrtAnd(bf.cseq.get() == st.c+int64(k), bf.pseq.get() == st.p))
	st.untouched("C14.peek_keeps_ring")
	vrtObserve("peek", len(b), err, c)
	vrtReach("C14.peek")
}

func H14_readcommit_too_much() {
	st := vrtRing(16384)
	bf := st.bf
	k := vrtInt("commit", 0, 20000)
	c, err := bf.ReadCommit(k)
	if int64(k) <= st.avail {
		vrtAssert("C14.readcommit_ok", vrtAnd(err == nil, c == k))
		vrtAssert("C14.readcommit_cursor", bf.cseq.get() == st.c+int64(k))
	} else {
		vrtAssert("C14.readcommit_refuses_uncommitted", vrtAnd(err != nil, c == 0))
		vrtAssert("C14.readcommit_cursor", bf.cseq.get() == st.c)
	}
	vrtAssert("C14.consumer_never_overtakes", bf.cseq.get() <= bf.pseq.get())
}

func H14_readwait() {
	st := vrtRing(16384)
	bf := st.bf
	n := vrtInt("n", 0, vrtBound("N14chunk", 4))
	vrtAssume(st.avail >= int64(n)) // otherwise the consumer blocks (C15)
	b, err := bf.ReadWait(n)
	vrtAssert("C14.readwait_ok", vrtAnd(err == nil, len(b) == n))
	vrtAssert("C14.readwait_no_cursor_change", vrtAnd(bf.cseq.get() == st.c, bf.pseq.get() == st.p))
	for i := 0; i < n && i < len(b) && i < vrtW; i++ {
		vrtAssert("C14.readwait_stream_bytes", b[i] == st.s[i])
	}
	st.untouched("C14.readwait_keeps_ring")
	vrtObserve("readwait", len(b), err)
	vrtReach("C14.readwait")
}

type vrtChunkReader struct {
	data []byte
	pos  int
	bf   *buffer
}

func (r *vrtChunkReader) Read(b []byte) (int, error) {
	if r.bf != nil {
		// a reader may fill all of b: b must lie inside the reserved block, which
		// must be free (not cover bytes the consumer has not committed)
		free := r.bf.size - (r.bf.pseq.get() - r.bf.cseq.get())
		vrtAssert("C14.readfrom_slice_within_block", vrtAnd(len(b) >= 1, len(b) <= defaultReadBlockSize))
		vrtAssert("C14.readfrom_slice_within_free", int64(len(b)) <= free)
	}
	if r.pos >= len(r.data) {
		return 0, io.EOF
	}
	n := copy(b, r.data[r.pos:])
	r.pos += n
	return n, nil
}

func H14_readfrom() {
	st := vrtRing(8192 - 8)
	bf := st.bf
	data := vrtBytesL("in", vrtBound("N14chunk", 4))
	orig := append([]byte(nil), data...)
	total, err := bf.ReadFrom(&vrtChunkReader{data: data, bf: bf})
	vrtAssert("C14.readfrom_result", vrtAnd(total == int64(len(orig)), err == io.EOF))
	vrtAssert("C14.readfrom_cursor", vrtAnd(bf.pseq.get() == st.p+int64(len(orig)), bf.cseq.get() == st.c))
	for i := range orig {
		vrtAssert("C14.readfrom_bytes_in_place", bf.buf[(st.p+int64(i))&bf.mask] == orig[i])
	}
	st.untouched("C14.readfrom_keeps_unread")
	vrtObserve("readfrom", total, err)
	vrtReach("C14.readfrom")
}

type vrtSinkWriter struct {
	bf    *buffer
	got   []byte
	start int64 // consumer cursor when the drain began
}

func (w *vrtSinkWriter) Write(b []byte) (int, error) {
	// while the writer has the block, the ring must not have released it (the slice may alias the ring)
	vrtAssert("C14.writeto_block_still_owned_by_consumer", w.bf.cseq.get() == w.start+int64(len(w.got)))
	w.got = append(w.got, b...)
	w.bf.Close() // the stream ends after this block (otherwise WriteTo waits for more data)
	return len(b), nil
}

func H14_writeto() {
	st := vrtRing(int64(vrtBound("N14chunk", 4)))
	bf := st.bf
	vrtAssume(st.avail >= 1)
	w := &vrtSinkWriter{bf: bf, start: st.c}
	total, err := bf.WriteTo(w)
	vrtAssert("C14.writeto_result", vrtAnd(total == st.avail, err == io.EOF))
	vrtAssert("C14.writeto_cursor", vrtAnd(bf.cseq.get() == st.p, bf.pseq.get() == st.p))
	vrtAssert("C14.writeto_len", int64(len(w.got)) == st.avail)
	for i := 0; i < len(w.got) && i < vrtW; i++ {
		vrtAssert("C14.writeto_stream_bytes", w.got[i] == st.s[i])
	}
	vrtObserve("writeto", total, err, w.got)
	vrtReach("C14.writeto")
}

func H14_len() {
	st := vrtRing(16384)
	vrtAssert("C14.len", int64(st.bf.Len()) == st.avail)
}

// H14b_blocked_producer: a producer that needs k bytes of room on a full ring
// stays blocked while the consumer has freed fewer than k bytes (every
// consumer step wakes it), and never overwrites bytes the consumer has not
// committed; the bytes then arrive in order.
func H14b_blocked_producer() {
	bf, err := newBuffer(1)
	if err != nil {
		panic(err)
	}
	bf.buf = vrtArrayBytes(int(bf.size))
	var c int64
	switch vrtChoice("pos", 3) {
	case 0:
		c = 0
	case 1:
		c = bf.size - 1
	case 2:
		c = 3*bf.size + 5
	}
	free := int64(vrtChoice("free", 2)) // 0 or 1 byte free
	p := c + bf.size - free
	bf.cseq.set(c)
	bf.pseq.set(p)
	bf.pseq.gate = c
	var s [4]byte
	for i := range s {
		s[i] = vrtByte("s")
		bf.buf[(c+int64(i))&bf.mask] = s[i]
	}
	need := 2 + vrtChoice("need", 2) // 2 or 3 bytes
	x := vrtBytesN("x", need)
	xs := append([]byte(nil), x...)
	var wn int
	var werr error
	useWait := vrtBool("writewait")
	vrtGo(func() {
		if useWait {
			var b []byte
			var wrap bool
			b, wrap, werr = bf.WriteWait(need)
			if werr == nil && wrap {
				wn, werr = bf.Write(xs) // what writeMessage does with a wrapped reservation
			} else if werr == nil {
				copy(b, xs)
				wn, werr = bf.WriteCommit(need)
			}
		} else {
			wn, werr = bf.Write(xs)
		}
	})
	vrtQuiesce()
	one := make([]byte, 1)
	steps := need - int(free)
	for k := 0; k < steps; k++ {
		vrtAssert("C14.producer_waits_for_room", bf.pseq.get() == p)
		for i := k; i < len(s); i++ {
			vrtAssert("C14.unread_bytes_kept", bf.buf[(c+int64(i))&bf.mask] == s[i])
		}
		n, rerr := bf.Read(one)
		vrtAssert("C14.read_one", n == 1 && rerr == nil)
		vrtAssert("C14.read_stream_byte", one[0] == s[k])
		vrtQuiesce()
	}
	vrtJoin()
	vrtAssert("C14.producer_done", werr == nil && wn == need)
	vrtAssert("C14.producer_cursor", bf.pseq.get() == p+int64(need))
	for i := 0; i < need; i++ {
		vrtAssert("C14.written_in_place", bf.buf[(p+int64(i))&bf.mask] == xs[i])
	}
	for i := steps; i < len(s); i++ {
		vrtAssert("C14.unread_bytes_kept", bf.buf[(c+int64(i))&bf.mask] == s[i])
	}
	vrtObserve("blocked", wn, steps)
	vrtReach("C14.blocked_producer")
}

// H14c_concurrent: one producer operation || a consumer that reads twice, under
// the exploring scheduler (a switch at every lock / condition / atomic
// operation of the buffer within the preemption bound): what the consumer
// obtains is, in every interleaving, a prefix of (bytes committed before)
// ++ (bytes the producer writes) - nothing stale, duplicated or reordered -
// and the producer overwrites nothing the consumer has not committed.
func H14c_concurrent() {
	bf, err := newBuffer(1)
	if err != nil {
		panic(err)
	}
	// (the ring keeps its ordinary cell-per-byte representation: the race detector tracks cells)
	var c int64
	switch vrtChoice("pos", 3) {
	case 0:
		c = 0
	case 1:
		c = bf.size - 2 // the written bytes straddle the end of the ring
	case 2:
		c = 5*bf.size - 1
	}
	fill := int64(vrtChoice("fill", 3)) // 0, 1 or size-1 bytes committed before
	if fill == 2 {
		fill = bf.size - 1
	}
	bf.cseq.set(c)
	bf.pseq.set(c + fill)
	bf.pseq.gate = c
	// the stream: first bytes of the committed part, then the producer's
	s0, s1 := vrtByte("s0"), vrtByte("s1")
	x0, x1 := vrtByte("x0"), vrtByte("x1")
	bf.buf[c&bf.mask] = s0
	bf.buf[(c+1)&bf.mask] = s1
	xs := []byte{x0, x1}
	var stream []byte
	switch {
	case fill == 0:
		stream = []byte{x0, x1}
	case fill == 1:
		stream = []byte{s0, x0, x1}
	default:
		stream = []byte{s0, s1}
	}
	pop := vrtChoice("pop", 3)
	cop := vrtChoice("cop", 3)
	if pop == 2 && fill > 1 {
		return // ReadFrom reserves a whole read block: it legitimately waits for ever here
	}
	var got []byte
	var perr, cerr error
	vrtGo(func() {
		switch pop {
		case 0:
			_, perr = bf.Write(xs)
		case 1:
			var b []byte
			var wrap bool
			b, wrap, perr = bf.WriteWait(2)
			if perr == nil && wrap {
				_, perr = bf.Write(xs)
			} else if perr == nil {
				copy(b, xs)
				_, perr = bf.WriteCommit(2)
			}
		case 2:
			_, perr = bf.ReadFrom(&vrtChunkReader{data: xs})
			if perr == io.EOF {
				perr = nil
			}
		}
	})
	vrtGo(func() {
		// two consumer steps: one byte, then up to two (at least two bytes arrive in total)
		for round := 0; round < 2 && cerr == nil; round++ {
			want := 1 + round
			switch cop {
			case 0:
				b := make([]byte, want)
				var n int
				n, cerr = bf.Read(b)
				got = append(got, b[:n]...)
			case 1:
				var b []byte
				b, cerr = bf.ReadPeek(want)
				if cerr == ErrBufferInsufficientData {
					cerr = nil
				}
				if cerr == nil {
					got = append(got, b...)
					_, cerr = bf.ReadCommit(len(b))
				}
			case 2:
				var b []byte
				b, cerr = bf.ReadWait(1)
				if cerr == nil {
					got = append(got, b...)
					_, cerr = bf.ReadCommit(len(b))
				}
			}
		}
	})
	vrtJoin()
	vrtAssert("C14.concurrent_producer_ok", perr == nil)
	vrtAssert("C14.concurrent_consumer_ok", cerr == nil)
	vrtAssert("C14.concurrent_consumed_at_least_two", len(got) >= 2)
	vrtAssert("C14.concurrent_not_more_than_produced", int64(len(got)) <= fill+2)
	for i := 0; i < len(got) && i < len(stream); i++ {
		vrtAssert("C14.concurrent_prefix_of_stream", got[i] == stream[i])
	}
	vrtAssert("C14.concurrent_cursors", vrtAnd(bf.cseq.get() == c+int64(len(got)), bf.pseq.get() == c+fill+2))
	// the producer's bytes are in place behind the committed part
	vrtAssert("C14.concurrent_written_in_place", vrtAnd(bf.buf[(c+fill)&bf.mask] == x0, bf.buf[(c+fill+1)&bf.mask] == x1))
	vrtReach("C14.concurrent")
}

// H14w_write_ringsize: a chunk of exactly the ring's size (the largest a Write
// can place) into an empty ring, at cursor positions where it does and does
// not wrap: every byte is in place.
func H14w_write_ringsize() {
	bf, err := newBuffer(1)
	if err != nil {
		panic(err)
	}
	c := []int64{0, 1, 5000, bf.size - 1, 3*bf.size + 77}[vrtChoice("pos", 5)]
	bf.cseq.set(c)
	bf.pseq.set(c)
	bf.pseq.gate = c
	short := int64(vrtChoice("short_by", 2)) // size or size-1 bytes
	p := make([]byte, bf.size-short)
	for i := range p {
		p[i] = byte(i*7 + 3)
	}
	probe := []int64{0, 1, int64(len(p)) / 2, int64(len(p)) - 2, int64(len(p)) - 1}
	for _, i := range probe {
		p[i] = vrtByte("b")
	}
	want := append([]byte(nil), p...)
	n, werr := bf.Write(p)
	vrtAssert("C14.write_result", n == len(p) && werr == nil)
	vrtAssert("C14.write_cursor", vrtAnd(bf.pseq.get() == c+int64(len(p)), bf.cseq.get() == c))
	for _, i := range probe {
		vrtAssert("C14.write_bytes_in_place", bf.buf[(c+i)&bf.mask] == want[i])
	}
	for i := int64(0); i < int64(len(p)); i += 997 {
		vrtAssert("C14.write_bytes_in_place", bf.buf[(c+i)&bf.mask] == want[i])
	}
	vrtReach("C14.write_ringsize")
}

// H14b_close_while_blocked: the ring is closed while a producer waits for room
// on a full ring: the producer gives up with io.EOF (it does not write), and
// what the consumer still drains afterwards is the unread data, intact.
func H14b_close_while_blocked() {
	bf, err := newBuffer(1)
	if err != nil {
		panic(err)
	}
	bf.buf = vrtArrayBytes(int(bf.size))
	c := []int64{0, bf.size - 1, 3*bf.size + 5}[vrtChoice("pos", 3)]
	p := c + bf.size
	bf.cseq.set(c)
	bf.pseq.set(p)
	bf.pseq.gate = c
	var s [3]byte
	for i := range s {
		s[i] = vrtByte("s")
		bf.buf[(c+int64(i))&bf.mask] = s[i]
	}
	xs := []byte{vrtByte("x"), vrtByte("x")}
	var werr error
	wn := 0
	kind := vrtChoice("producer", 3)
	vrtGo(func() {
		switch kind {
		case 0:
			wn, werr = bf.Write(xs)
		case 1:
			_, _, werr = bf.WriteWait(2)
		case 2:
			wn, werr = bf.WriteCommit(2)
		}
	})
	vrtQuiesce()
	vrtAssert("C14.close_ok", bf.Close() == nil)
	vrtJoin()
	vrtAssert("C14.blocked_producer_gets_eof", werr == io.EOF && wn == 0)
	vrtAssert("C14.producer_cursor_unchanged", bf.pseq.get() == p)
	for i := range s {
		vrtAssert("C14.unread_bytes_kept", bf.buf[(c+int64(i))&bf.mask] == s[i])
	}
	one := make([]byte, 1)
	n, rerr := bf.Read(one)
	vrtAssert("C14.drain_after_close", n == 1 && rerr == nil && one[0] == s[0])
	vrtReach("C14.close_while_blocked")
}

type vrtFailingWriter struct{ err error }

func (w vrtFailingWriter) Write(b []byte) (int, error) { return 0, w.err }

// H14_writeto_writer_fails: when the destination's Write fails - with whatever
// error, io.EOF included - WriteTo returns it and leaves the ring closed, so
// that producers waiting for room are released.
func H14_writeto_writer_fails() {
	st := vrtRing(int64(vrtBound("N14chunk", 4)))
	bf := st.bf
	vrtAssume(st.avail >= 1)
	errs := []error{io.EOF, io.ErrClosedPipe, ErrBufferNotReady}
	e := errs[vrtChoice("error", len(errs))]
	_, werr := bf.WriteTo(vrtFailingWriter{e})
	vrtAssert("C14.writeto_returns_the_write_error", werr == e)
	vrtAssert("C14.writeto_failure_closes_the_ring", bf.isDone())
	vrtAssert("C14.writeto_failure_consumes_nothing", bf.cseq.get() == st.c)
	_, _, e2 := bf.WriteWait(1)
	vrtAssert("C14.writewait_after_close_eof", e2 == io.EOF)
	vrtReach("C14.writeto_writer_fails")
}

// H14_sizes: newBuffer for requested sizes below, at and above the minimum,
// powers of two or not: the ring is a power of two, at least the minimum, at
// least what was asked for, and mask = size-1.
func H14_sizes() {
	sizes := []int64{1, 100, 1000, 3000, 4096, 8192, 16383, 16384, 16385, 20000, 65536}
	n := sizes[vrtChoice("requested", len(sizes))]
	bf, err := newBuffer(n)
	vrtAssert("C14.newbuffer_ok", err == nil)
	if err != nil {
		return
	}
	vrtAssert("C14.size_power_of_two", bf.size&(bf.size-1) == 0)
	vrtAssert("C14.size_at_least_two_read_blocks", bf.size >= 2*defaultReadBlockSize)
	vrtAssert("C14.size_at_least_requested", bf.size >= n)
	vrtAssert("C14.mask_is_size_minus_one", bf.mask == bf.size-1)
	vrtAssert("C14.backing_array_is_the_ring", int64(len(bf.buf)) == bf.size)
	vrtReach("C14.sizes")
}

// H14_second_lap: the consumer peeks a block that straddles the end of the ring, commits it, and one lap
// later - after 16384 further bytes went through the ring, none of them read across its end - peeks a
// block that straddles the end again, starting at the same ring index, with other contents and a
// length that may be smaller, equal or larger. (The lap in between is not executed: cursors and contents
// are set to what any sequence of non-wrapping operations leaves behind; such operations touch nothing
// else.) What is returned must be the bytes of the second lap (round-8 change C14-15: a scratch copy for
// wrapped peeks that is kept, keyed by the ring index, and not invalidated by a commit).
func H14_second_lap() {
	bf, err := newBuffer(1)
	if err != nil {
		panic(err)
	}
	a := int64(1 + vrtChoice("bytes_before_the_end", 3))
	n1 := 4 + vrtChoice("first_len", 3)
	n2 := 4 + vrtChoice("second_len", 3)
	lap := int64(1 + vrtChoice("laps_before", 2))
	c := lap*bf.size - a
	fill := func(base int64, n int, name string) []byte {
		xs := make([]byte, n)
		for i := range xs {
			xs[i] = vrtByte(name)
			bf.buf[(base+int64(i))&bf.mask] = xs[i]
		}
		return xs
	}
	peek := func(n int, second bool) ([]byte, error) {
		if vrtBool("readwait") {
			return bf.ReadWait(n)
		}
		if second && vrtBool("header_first") {
			// the way the processor asks: a short peek first, then the whole block
			if _, err := bf.ReadPeek(2); err != nil {
				return nil, err
			}
		}
		return bf.ReadPeek(n)
	}
	bf.cseq.set(c)
	bf.pseq.set(c + int64(n1))
	bf.pseq.gate = c
	x := fill(c, n1, "x")
	p1, err := peek(n1, false)
	vrtAssert("C14.peek_len", vrtAnd(err == nil, len(p1) == n1))
	for i := 0; i < n1 && i < len(p1); i++ {
		vrtAssert("C14.peek_stream_bytes", p1[i] == x[i])
	}
	k, err := bf.ReadCommit(n1)
	vrtAssert("C14.readcommit_ok", vrtAnd(err == nil, k == n1))
	// one lap later
	c += bf.size
	bf.cseq.set(c)
	bf.pseq.set(c + int64(n2))
	bf.pseq.gate = c
	y := fill(c, n2, "y")
	p2, err := peek(n2, true)
	vrtAssert("C14.peek_len", vrtAnd(err == nil, len(p2) == n2))
	for i := 0; i < n2 && i < len(p2); i++ {
		vrtAssert("C14.second_lap_bytes", p2[i] == y[i])
	}
	vrtReach("C14.second_lap")
}

// H14b_blocked_readfrom: the socket-to-ring pump (ReadFrom) on a ring that is completely full, or has one
// byte or one byte less than a read block free, while the consumer then takes the unread bytes out in
// pieces. Whenever the pump hands a slice to the socket reader, that slice lies in room that is free at
// that moment; the consumer gets the old bytes and then the new ones, in order, none changed (round-8
// change C14-16: a pump that waits for one free byte instead of a whole block took a completely full
// ring for an empty one and let the reader overwrite unread bytes). How much room the pump waits for is
// its own business: nothing here depends on it.
func H14b_blocked_readfrom() {
	bf, err := newBuffer(1)
	if err != nil {
		panic(err)
	}
	var c int64
	switch vrtChoice("pos", 3) {
	case 1:
		c = bf.size - 5
	case 2:
		c = 3*bf.size + 9000
	}
	free := []int64{0, 1, defaultReadBlockSize - 1}[vrtChoice("free", 3)]
	unread := bf.size - free
	bf.cseq.set(c)
	bf.pseq.set(c + unread)
	bf.pseq.gate = c
	old := make([]byte, unread)
	for i := range old {
		old[i] = byte(i*7 + 1)
	}
	old[0], old[1] = vrtByte("s0"), vrtByte("s1")
	for i := range old {
		bf.buf[(c+int64(i))&bf.mask] = old[i]
	}
	fresh := []byte{vrtByte("x0"), vrtByte("x1"), vrtByte("x2")}
	rd := &vrtChunkReader{data: fresh, bf: bf}
	var perr error
	vrtGo(func() {
		_, perr = bf.ReadFrom(rd)
		if perr == io.EOF {
			perr = nil
		}
	})
	vrtQuiesce()
	// the consumer takes everything out: first two single bytes, then blocks
	var got []byte
	want := append(append([]byte(nil), old...), fresh...)
	for len(got) < len(want) {
		n := 4096
		if len(got) < 2 {
			n = 1
		}
		if rest := len(want) - len(got); n > rest {
			n = rest
		}
		b := make([]byte, n)
		k, rerr := bf.Read(b)
		vrtAssert("C14.read_ok", rerr == nil && k >= 1)
		if rerr != nil || k < 1 {
			return
		}
		got = append(got, b[:k]...)
		vrtQuiesce()
	}
	vrtJoin()
	vrtAssert("C14.producer_done", perr == nil)
	ok := true
	for i := range want {
		ok = vrtAnd(ok, got[i] == want[i])
	}
	vrtAssert("C14.consumer_stream_is_producer_stream", ok)
	vrtReach("C14.blocked_readfrom")
}
