//go:build verif

package service

import "github.com/mdzio/go-mqtt/message"

// C11: nothing happens on a connection until a valid CONNECT has been accepted.

func H11_smoke() {
	b := vrtBroker("mockSuccess")
	c, ans := b.connect(vrtConnectPkt([]byte("c1"), true))
	vrtAssert("C11.connack_accepted", vrtIsConnack(ans, false, 0))
	pong := vrtExchange(c, &specPkt{Typ: specPINGREQ})
	vrtAssert("C11.pingresp", vrtBytesEq(pong, []byte{0xD0, 0}))
	vrtObserve("smoke", ans, pong)
	vrtReach("C11.smoke")
}

func (b *vrtBench) retainedCount() int {
	var msgs []*message.PublishMessage
	b.svr.topicsMgr.Retained([]byte("#"), &msgs)
	return len(msgs)
}

// vrtFirstPacket: a witness subscribed to "#" is connected; a second
// connection sends `first` and then a SUBSCRIBE and a retained PUBLISH.
func vrtFirstPacket(first []byte, authenticator string) {
	b := vrtBroker(authenticator)
	class, _ := specConnectClass(first)
	if class == 4 {
		return
	}
	// the witness (accepted only by the accepting authenticator; with the rejecting
	// one the witness is an in-process subscriber)
	witnessGot := 0
	var wfn OnPublishFunc = func(m *message.PublishMessage) error {
		witnessGot++
		return nil
	}
	if err := b.svr.Subscribe("#", 0, &wfn); err != nil {
		vrtAssert("C11.harness_witness", false)
		return
	}
	sessionsBefore := b.svr.sessMgr.Count()
	// the input is one (possibly truncated) packet: no bytes after a complete frame
	_, _, remlen, hdr, frameOK := specFrame(first)
	complete := frameOK && len(first) >= hdr+remlen
	if complete {
		vrtAssume(len(first) == hdr+remlen)
	}
	c := b.open()
	c.peerSend(first)
	vrtQuiesce()
	if !complete {
		// a truncated first packet: the client gives up
		vrtReach("C11.truncated")
		c.peerClose()
		vrtQuiesce()
	}
	ans := c.peerTake()
	accepted := class == 0 && authenticator == "mockSuccess"
	switch {
	case accepted:
		vrtAssert("C11.accept_connack", vrtIsConnack(ans, false, 0))
		vrtAssert("C11.accept_stays_open", !c.isClosed())
		vrtReach("C11.accepted")
	case class == 0:
		vrtAssert("C11.badauth_connack_4", vrtIsConnack(ans, false, 4))
		vrtAssert("C11.refused_closed", c.isClosed())
		vrtReach("C11.refused_auth")
	case class == 1:
		vrtAssert("C11.badproto_connack_1", vrtIsConnack(ans, false, 1))
		vrtAssert("C11.refused_closed", c.isClosed())
		vrtReach("C11.refused_proto")
	case class == 2:
		vrtAssert("C11.badid_connack_2", vrtIsConnack(ans, false, 2))
		vrtAssert("C11.refused_closed", c.isClosed())
		vrtReach("C11.refused_id")
	default:
		// don't-care whether a non-zero CONNACK is written; never an accepting one
		noAccept := true
		if len(ans) >= 4 {
			noAccept = vrtNot(vrtAnd(ans[0] == 0x20, ans[3] == 0))
		}
		vrtAssert("C11.malformed_never_accepted", noAccept)
		vrtAssert("C11.refused_closed", c.isClosed())
		vrtReach("C11.refused_malformed")
	}
	if !complete {
		vrtAssert("C11.refused_no_delivery", witnessGot == 0)
		vrtAssert("C11.refused_no_retained", b.retainedCount() == 0)
		vrtAssert("C11.refused_no_session", b.svr.sessMgr.Count() == sessionsBefore)
		vrtObserve("truncated", ans)
		return
	}
	// later packets on that connection
	more := vrtExchange(c,
		&specPkt{Typ: specSUBSCRIBE, ID: 7, Topics: [][]byte{[]byte("w")}, QoS: []byte{0}},
		&specPkt{Typ: specPUBLISH, Flags: 1, Topic: []byte("r"), Payload: []byte("x")})
	if accepted {
		vrtAssert("C11.accepted_suback", vrtBytesEq(more, []byte{0x90, 3, 0, 7, 0}))
		vrtAssert("C11.accepted_publish_delivered", witnessGot == 1)
		vrtAssert("C11.accepted_retained", b.retainedCount() == 1)
	} else {
		vrtAssert("C11.refused_silent", len(more) == 0)
		vrtAssert("C11.refused_no_delivery", witnessGot == 0)
		vrtAssert("C11.refused_no_retained", b.retainedCount() == 0)
		vrtAssert("C11.refused_no_session", b.svr.sessMgr.Count() == sessionsBefore)
	}
	vrtObserve("first", class, ans, more, witnessGot)
}

func H11_first_packet_bytes() {
	first := vrtBytesL("first", vrtBound("N11", 16))
	vrtFirstPacket(first, "mockSuccess")
}

// H11_connect_fields: a field-structured CONNECT (every flag / field symbolic), both authenticators.
func H11_connect_fields() {
	S := vrtBound("N11str", 1)
	p := specPkt{Typ: specCONNECT, Level: vrtByte("level"), CFlags: vrtByte("cflags"), KeepAlive: vrtUint16("keepalive")}
	if vrtBool("mqtt311") {
		p.Proto = []byte("MQTT")
	} else {
		p.Proto = []byte("MQIsdp")
	}
	p.ClientID = vrtBytesL("cid", S+1)
	if p.CFlags&0x04 != 0 {
		p.WillTopic = vrtBytesL("willtopic", S)
		p.WillMsg = vrtBytesL("willmsg", S)
	}
	if p.CFlags&0x80 != 0 {
		p.User = vrtBytesL("user", S)
	}
	if p.CFlags&0x40 != 0 {
		p.Pass = vrtBytesL("pass", S)
	}
	auth := "mockSuccess"
	if vrtBool("rejecting") {
		auth = "mockFailure"
	}
	vrtFirstPacket(specEncode(&p), auth)
}
