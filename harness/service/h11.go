//go:build verif

package service

import (
	"fmt"

	"github.com/mdzio/go-mqtt/auth"
	"github.com/mdzio/go-mqtt/message"
)

// C11: nothing happens on a connection until a valid CONNECT has been accepted.

func H11_smoke() {
	b := vrtBroker("mockSuccess")
	c, ans := b.connect(vrtConnectPkt([]byte("c1"), true))
	vrtAssert("C11.connack_accepted", vrtIsConnack(ans, false, 0))
	pong := vrtExchange(c, &specPkt{Typ: specPINGREQ})
	vrtAssert("C11.pingresp", vrtBytesEq(pong, []byte{0xD0, 0}))
	vrtObserve("smoke", ans, pong)
	vrtReach("C11.smoke")
}

func (b *vrtBench) retainedCount() int {
	var msgs []*message.PublishMessage
	b.svr.topicsMgr.Retained([]byte("#"), &msgs)
	return len(msgs)
}

// vrtFirstPacket: a witness subscribed to "#" is connected; a second
// connection sends `first` and then a SUBSCRIBE and a retained PUBLISH.
func vrtFirstPacket(first []byte, authenticator string) {
	b := vrtBroker(authenticator)
	class, _ := specConnectClass(first)
	if class == 4 {
		return
	}
	// the witness (accepted only by the accepting authenticator; with the rejecting
	// one the witness is an in-process subscriber)
	witnessGot := 0
	var wfn OnPublishFunc = func(m *message.PublishMessage) error {
		witnessGot++
		return nil
	}
	if err := b.svr.Subscribe("#", 0, &wfn); err != nil {
		vrtAssert("C11.harness_witness", false)
		return
	}
	sessionsBefore := b.svr.sessMgr.Count()
	// the input is one (possibly truncated) packet: no bytes after a complete frame
	_, _, remlen, hdr, frameOK := specFrame(first)
	complete := frameOK && len(first) >= hdr+remlen
	if complete {
		vrtAssume(len(first) == hdr+remlen)
	}
	c := b.open()
	c.peerSend(first)
	vrtQuiesce()
	if !complete {
		// a truncated first packet: the client gives up
		vrtReach("C11.truncated")
		c.peerClose()
		vrtQuiesce()
	}
	ans := c.peerTake()
	accepted := class == 0 && authenticator == "mockSuccess"
	switch {
	case accepted:
		vrtAssert("C11.accept_connack", vrtIsConnack(ans, false, 0))
		vrtAssert("C11.accept_stays_open", !c.isClosed())
		vrtReach("C11.accepted")
	case class == 0:
		vrtAssert("C11.badauth_connack_4", vrtIsConnack(ans, false, 4))
		vrtAssert("C11.refused_closed", c.isClosed())
		vrtReach("C11.refused_auth")
	case class == 1:
		vrtAssert("C11.badproto_connack_1", vrtIsConnack(ans, false, 1))
		vrtAssert("C11.refused_closed", c.isClosed())
		vrtReach("C11.refused_proto")
	case class == 2:
		vrtAssert("C11.badid_connack_2", vrtIsConnack(ans, false, 2))
		vrtAssert("C11.refused_closed", c.isClosed())
		vrtReach("C11.refused_id")
	default:
		// don't-care whether a non-zero CONNACK is written; never an accepting one
		noAccept := true
		if len(ans) >= 4 {
			noAccept = vrtNot(vrtAnd(ans[0] == 0x20, ans[3] == 0))
		}
		vrtAssert("C11.malformed_never_accepted", noAccept)
		vrtAssert("C11.refused_closed", c.isClosed())
		vrtReach("C11.refused_malformed")
	}
	if !complete {
		vrtAssert("C11.refused_no_delivery", witnessGot == 0)
		vrtAssert("C11.refused_no_retained", b.retainedCount() == 0)
		vrtAssert("C11.refused_no_session", b.svr.sessMgr.Count() == sessionsBefore)
		vrtObserve("truncated", ans)
		return
	}
	// later packets on that connection
	more := vrtExchange(c,
		&specPkt{Typ: specSUBSCRIBE, ID: 7, Topics: [][]byte{[]byte("w")}, QoS: []byte{0}},
		&specPkt{Typ: specPUBLISH, Flags: 1, Topic: []byte("r"), Payload: []byte("x")})
	if accepted {
		vrtAssert("C11.accepted_suback", vrtBytesEq(more, []byte{0x90, 3, 0, 7, 0}))
		vrtAssert("C11.accepted_publish_delivered", witnessGot == 1)
		vrtAssert("C11.accepted_retained", b.retainedCount() == 1)
	} else {
		vrtAssert("C11.refused_silent", len(more) == 0)
		vrtAssert("C11.refused_no_delivery", witnessGot == 0)
		vrtAssert("C11.refused_no_retained", b.retainedCount() == 0)
		vrtAssert("C11.refused_no_session", b.svr.sessMgr.Count() == sessionsBefore)
	}
	vrtObserve("first", class, ans, more, witnessGot)
}

func H11_first_packet_bytes() {
	first := vrtBytesL("first", vrtBound("N11", 16))
	vrtFirstPacket(first, "mockSuccess")
}

// H11_connect_fields: a field-structured CONNECT (every flag / field symbolic), both authenticators.
func H11_connect_fields() {
	S := vrtBound("N11str", 1)
	p := specPkt{Typ: specCONNECT, Level: vrtByte("level"), CFlags: vrtByte("cflags"), KeepAlive: vrtUint16("keepalive")}
	if vrtBool("mqtt311") {
		p.Proto = []byte("MQTT")
	} else {
		p.Proto = []byte("MQIsdp")
	}
	p.ClientID = vrtBytesL("cid", S+1)
	if p.CFlags&0x04 != 0 {
		p.WillTopic = vrtBytesL("willtopic", S)
		p.WillMsg = vrtBytesL("willmsg", S)
	}
	if p.CFlags&0x80 != 0 {
		p.User = vrtBytesL("user", S)
	}
	if p.CFlags&0x40 != 0 {
		p.Pass = vrtBytesL("pass", S)
	}
	auth := "mockSuccess"
	if vrtBool("rejecting") {
		auth = "mockFailure"
	}
	vrtFirstPacket(specEncode(&p), auth)
}

// vrtCredAuth accepts exactly one user name / password pair.
type vrtCredAuth struct{}

func (vrtCredAuth) Authenticate(id string, cred interface{}) error {
	pw, _ := cred.(string)
	if (id == "u" && pw == "p") || (id == "adm" && pw == "inX") {
		return nil
	}
	return fmt.Errorf("bad credentials")
}

var vrtCredAuthRegistered bool

// H11_credentials: an authenticator whose verdict depends on the credentials.
// A CONNECT is accepted exactly when ITS OWN user name and password are the
// right ones - whatever earlier connections presented (nothing of an earlier
// CONNECT may be carried over into the decision).
func H11_credentials() {
	if !vrtCredAuthRegistered {
		auth.Register("vrtcred", vrtCredAuth{})
		vrtCredAuthRegistered = true
	}
	b := vrtBroker("vrtcred")
	good := vrtConnectPkt([]byte("g"), true)
	good.CFlags |= 0xC0
	good.User, good.Pass = []byte("u"), []byte("p")
	if vrtBool("long_good_pair") {
		good.User, good.Pass = []byte("adm"), []byte("inX")
	}
	goodFirst := vrtBool("good_one_first")
	if goodFirst {
		_, ack := b.connect(good)
		vrtAssert("C11.accept_connack", vrtIsConnack(ack, false, 0))
	}
	// the connection under test: anonymous, or with a symbolic user name / password
	p := vrtConnectPkt([]byte("c"), true)
	kind := vrtChoice("credentials", 4)
	ok := false
	switch kind {
	case 3:
		// the same characters as an accepted pair, split differently between user name and password (a decision
		// that is remembered under a key built from both must not confuse "adm"+"inX" with "admin"+"X")
		all := []byte("adminX")
		k := vrtChoice("split", len(all)+1)
		p.CFlags |= 0xC0
		p.User, p.Pass = all[:k:k], all[k:]
		ok = k == 3
	case 1:
		p.CFlags |= 0x80
		p.User = []byte{vrtByte("user")}
	case 2:
		p.CFlags |= 0xC0
		u, w := vrtByte("user"), vrtByte("pass")
		p.User, p.Pass = []byte{u}, []byte{w}
		ok = vrtConcretize(vrtIteInt(vrtAnd(u == 'u', w == 'p'), 1, 0)) == 1
	}
	c, ack := b.connect(p)
	if ok {
		vrtAssert("C11.accept_connack", vrtIsConnack(ack, false, 0))
		vrtReach("C11.accepted_with_credentials")
	} else {
		vrtAssert("C11.badauth_connack_4", vrtIsConnack(ack, false, 4))
		vrtAssert("C11.refused_closed", c.isClosed())
		wantSessions := 0
		if goodFirst {
			wantSessions = 1
		}
		vrtAssert("C11.refused_no_session", b.svr.sessMgr.Count() == wantSessions)
		vrtReach("C11.refused_credentials")
	}
}

// H11_connack_first: the client is slow to read, and has pipelined a request
// behind its CONNECT: whatever the broker writes to the connection waits until
// the client reads again (and then the write that came last is served first,
// as a socket may do with several blocked writers). The CONNACK is still the
// first packet of the stream: nothing else is written before it has left.
func H11_connack_first() {
	b := vrtBroker("mockSuccess")
	resumed := vrtBool("resumed_session_with_traffic")
	var pub *vrtConn
	if resumed {
		c0, _ := b.connect(vrtConnectPkt([]byte("c"), false))
		vrtExchange(c0, &specPkt{Typ: specSUBSCRIBE, ID: 1, Topics: [][]byte{[]byte("t")}, QoS: []byte{0}})
		vrtEnd(c0, 1)
		pub, _ = b.connect(vrtConnectPkt([]byte("p"), true))
	}
	c := b.open()
	c.peerHold(true)
	c.peerSend(append(specEncode(vrtConnectPkt([]byte("c"), !resumed)), specEncode(&specPkt{Typ: specPINGREQ})...))
	vrtQuiesce()
	if resumed {
		// another client publishes to the resumed session's subscription during the reconnect
		vrtExchange(pub, &specPkt{Typ: specPUBLISH, Topic: []byte("t"), Payload: []byte("m")})
	}
	// a connection has one writer at a time: the handshake, then the sender goroutine
	vrtAssert("C11.nothing_written_concurrently_with_the_connack", c.blockedWriters() <= 1)
	c.peerHold(false)
	vrtQuiesce()
	got, ok := vrtParse(c.peerTake())
	vrtAssert("C11.stream_wellformed", ok && len(got) >= 2)
	if ok && len(got) >= 1 {
		vrtAssert("C11.connack_is_the_first_packet", got[0].Typ == specCONNACK)
	}
	vrtReach("C11.connack_first")
}

// H11_reconnect_accepted: a well-formed, acceptable CONNECT is answered with return code 0 whatever the
// session store holds under its client identifier from EARLIER connections: a persistent session left
// behind, a clean one, ended by DISCONNECT or dropped; clean flag of the new CONNECT symbolic; up to
// three connections in a row (round-7 change C11-13: a stored session made every later CleanSession=1
// CONNECT of that identifier end in a silent close).
func H11_reconnect_accepted() {
	b := vrtBroker("mockSuccess")
	n := 2 + vrtChoice("connections", 2)
	stored := false
	for i := 0; i < n; i++ {
		clean := vrtBool("clean")
		c, ack := b.connect(vrtConnectPkt([]byte("x"), clean))
		vrtAssert("C11.accept_connack", vrtIsConnack(ack, !clean && stored, 0))
		vrtAssert("C11.accepted_connection_stays_open", !c.isClosed())
		pong := vrtExchange(c, &specPkt{Typ: specPINGREQ})
		vrtAssert("C11.accepted_connection_works", vrtBytesEq(pong, []byte{0xd0, 0}))
		vrtEnd(c, vrtChoice("end", 2))
		stored = !clean
	}
	vrtReach("C11.reconnect_accepted")
}
