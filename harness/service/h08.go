//go:build verif

package service

import (
	"github.com/mdzio/go-mqtt/message"
	"github.com/mdzio/go-mqtt/topics"
)

// C08: retained messages - last one per topic, cleared by an empty payload,
// delivered intact (retain flag set, QoS downgraded) to new subscriptions only.

type vrtRetained struct {
	have    bool
	payload []byte
	qos     byte
}

func H08_retained() {
	V := vrtBound("N08levels", 2)
	K := vrtBound("N08ops", 3)
	b := vrtBroker("mockSuccess")
	e, _ := b.connect(vrtConnectPkt([]byte("e"), true))
	qe := byte(1) // the existing subscriber's granted QoS (it must not leak into the store)
	ans := vrtExchange(e, &specPkt{Typ: specSUBSCRIBE, ID: 1, Topics: [][]byte{[]byte("#")}, QoS: []byte{qe}})
	vrtAssert("C08.harness_suback", vrtBytesEq(ans, []byte{0x90, 3, 0, 1, qe}))
	p, _ := b.connect(vrtConnectPkt([]byte("p"), true))
	T := [2][]byte{vrtLevelName("T0", V, false), vrtLevelName("T1", V, false)}
	same := vrtBytesEq(T[0], T[1])
	var model [2]vrtRetained
	for k := 0; k < K; k++ {
		// symmetry: the history starts with a retained, non-empty publish on T0
		// N08fixed=1: the operation kinds are fixed to publish, publish, ..., subscribe
		var isPublish bool
		switch {
		case k == 0:
			isPublish = true
		case vrtBound("N08fixed", 0) == 1:
			isPublish = k < K-1 // publish, ..., publish, subscribe
		case vrtBound("N08fixed", 0) == 2:
			isPublish = false // publish, subscribe, ..., subscribe
		default:
			isPublish = vrtChoice("op", 2) == 0
		}
		if isPublish {
			// ---- a publish
			t := 0
			if k > 0 {
				t = vrtChoice("t", 2)
			}
			mt := t
			if same {
				mt = 0
			}
			payload := vrtBytesL("payload", 1)
			retain := vrtBool("retain")
			if k == 0 {
				vrtAssume(vrtAnd(retain, len(payload) == 1))
			}
			q := vrtByte("q")
			vrtAssume(q <= 2)
			id := uint16(100 + k)
			pkt := &specPkt{Typ: specPUBLISH, Flags: q<<1 | vrtB2b(retain, 1), Topic: T[t], Payload: payload}
			if q > 0 {
				pkt.ID = id
			}
			reply := vrtExchange(p, pkt)
			switch q {
			case 0:
				vrtAssert("C08.no_reply_qos0", len(reply) == 0)
			case 1:
				vrtAssert("C08.puback", vrtBytesEq(reply, []byte{0x40, 2, 0, byte(id)}))
			case 2:
				vrtAssert("C08.pubrec", vrtBytesEq(reply, []byte{0x50, 2, 0, byte(id)}))
				reply = vrtExchange(p, &specPkt{Typ: specPUBREL, ID: id})
				vrtAssert("C08.pubcomp", vrtBytesEq(reply, []byte{0x70, 2, 0, byte(id)}))
			}
			if retain {
				if len(payload) == 0 {
					model[mt] = vrtRetained{}
					vrtReach("C08.cleared")
				} else {
					model[mt] = vrtRetained{have: true, payload: payload, qos: q}
				}
			}
			// the existing subscription gets it as an ordinary message
			fw, ok := vrtParse(e.peerTake())
			vrtAssert("C08.stream_wellformed", ok)
			vrtAssert("C08.forwarded_once", len(fw) == 1)
			if len(fw) == 1 {
				okp := vrtAnd(vrtBytesEq(fw[0].Topic, T[t]), vrtBytesEq(fw[0].Payload, payload))
				vrtAssert("C08.forward_content", okp)
				vrtAssert("C08.forward_has_no_retain_flag", fw[0].Flags&1 == 0)
				vrtAssert("C08.forward_qos", (fw[0].Flags>>1)&3 == specMinQos(q, qe))
			}
			continue
		}
		// ---- a new subscription: a connection's SUBSCRIBE or the in-process Server.Subscribe
		F := vrtLevelName("F", V, true)
		vrtAssume(specFilterValid(F))
		g := vrtByte("granted")
		vrtAssume(g <= 2)
		var got []specPkt
		if vrtBool("inprocess") {
			var fn OnPublishFunc = func(m *message.PublishMessage) error {
				got = append(got, specPkt{Typ: specPUBLISH, Flags: m.QoS()<<1 | vrtB2b(m.Retain(), 1),
					Topic: append([]byte(nil), m.Topic()...), Payload: append([]byte(nil), m.Payload()...)})
				return nil
			}
			vrtAssert("C08.inprocess_subscribe_ok", b.svr.Subscribe(string(F), g, &fn) == nil)
			vrtReach("C08.inprocess")
		} else {
			n, _ := b.connect(vrtConnectPkt([]byte{'n', byte('0' + k)}, true))
			sub := &specPkt{Typ: specSUBSCRIBE, ID: 7, Topics: [][]byte{F}, QoS: []byte{g}}
			wantAck := []byte{0x90, 3, 0, 7, g}
			if vrtBound("N08second", 0) == 1 && vrtBool("secondfilter") {
				// a second filter in the same packet that matches nothing, with its own QoS
				g2 := vrtByte("granted2")
				vrtAssume(g2 <= 2)
				sub.Topics = append(sub.Topics, []byte("~~/~~"))
				sub.QoS = append(sub.QoS, g2)
				wantAck = []byte{0x90, 4, 0, 7, g, g2}
			}
			pk, ok := vrtParse(vrtExchange(n, sub))
			vrtAssert("C08.stream_wellformed", ok)
			vrtAssert("C08.suback_first", vrtAnd(len(pk) >= 1, vrtBytesEq(specEncode(&pk[0]), wantAck)))
			if len(pk) >= 1 {
				got = pk[1:]
			}
		}
		want := 0
		for t := 0; t < 2; t++ {
			if !model[t].have || (same && t == 1) {
				continue
			}
			if vrtConcretize(vrtIteInt(specMatch(F, T[t]), 1, 0)) == 0 {
				continue
			}
			want++
			found := 0
			for _, r := range got {
				if r.Typ == specPUBLISH && vrtBytesEq(r.Topic, T[t]) {
					found++
					vrtAssert("C08.retained_payload_intact", vrtBytesEq(r.Payload, model[t].payload))
					vrtAssert("C08.retained_has_retain_flag", r.Flags&1 == 1)
					vrtAssert("C08.retained_qos_downgraded", (r.Flags>>1)&3 == specMinQos(model[t].qos, g))
				}
			}
			vrtAssert("C08.retained_delivered_once", found == 1)
			vrtReach("C08.retained_delivered")
		}
		vrtAssert("C08.only_matching_retained", len(got) == want)
		vrtObserve("sub", len(got), want)
	}
	vrtReach("C08.history")
}

// H08b_update_during_subscribe: a retained update (or clear) by another client
// lands exactly between the two steps a new subscription consists of (the
// registration in the subscription tree and the lookup of the retained
// messages - forced by a hook on the topic store at the second of the two
// provider calls, whichever it is). Whatever the order of the two steps, the
// new subscription must end up with the current retained message: the last
// thing it is handed for the topic is the new value (live or retained), or, for
// a clear, it is not left holding the old value as the final word.
func H08b_update_during_subscribe() {
	b := vrtBroker("mockSuccess")
	pub, _ := b.connect(vrtConnectPkt([]byte("p"), true))
	q := vrtByte("q")
	vrtAssume(q <= 1)
	v1 := &specPkt{Typ: specPUBLISH, Flags: 1 | q<<1, Topic: []byte("r"), Payload: []byte("old")}
	if q > 0 {
		v1.ID = 3
	}
	vrtExchange(pub, v1)
	clear := vrtBool("clear")
	calls := 0
	inject := func(f []byte) {
		calls++
		if calls != 2 {
			return
		}
		v2 := &specPkt{Typ: specPUBLISH, Flags: 1 | q<<1, Topic: []byte("r"), Payload: []byte("new")}
		if clear {
			v2.Payload = nil
		}
		if q > 0 {
			v2.ID = 4
		}
		m := message.NewPublishMessage()
		m.SetTopic(v2.Topic)
		m.SetPayload(v2.Payload)
		m.SetQoS(q)
		m.SetRetain(true)
		b.svr.Publish(m) // (another goroutine's publish, serialised here by the hook)
	}
	vrtTopicsHook.onSubscribe = inject
	vrtTopicsHook.onRetained = inject
	var got []specPkt
	wire := vrtBool("wire_subscriber")
	if wire {
		s, _ := b.connect(vrtConnectPkt([]byte("s"), true))
		calls = 0
		ans := vrtExchange(s, &specPkt{Typ: specSUBSCRIBE, ID: 1, Topics: [][]byte{[]byte("r")}, QoS: []byte{1}})
		pk, ok := vrtParse(ans)
		vrtAssert("C08.stream_wellformed", ok && len(pk) >= 1)
		if len(pk) >= 1 {
			got = pk[1:]
		}
	} else {
		in := vrtNewInproc()
		calls = 0
		vrtAssert("C08.inprocess_subscribe_ok", b.svr.Subscribe("r", 1, &in.fn) == nil)
		vrtQuiesce()
		got = in.take()
	}
	vrtTopicsHook.onSubscribe, vrtTopicsHook.onRetained = nil, nil
	vrtAssert("C08.harness_hook_ran", calls >= 2)
	if clear {
		// the store is empty now; a subscription that only ever saw "old" as a retained message was given a stale value
		stale := len(got) > 0
		if stale {
			last := got[len(got)-1]
			stale = vrtBytesEq(last.Payload, []byte("old"))
		}
		vrtAssert("C08.new_subscription_not_left_with_cleared_value", !stale)
		vrtAssert("C08.store_cleared", b.retainedCount() == 0)
	} else {
		ok := len(got) > 0
		if ok {
			ok = vrtBytesEq(got[len(got)-1].Payload, []byte("new"))
		}
		vrtAssert("C08.new_subscription_ends_with_current_value", ok)
	}
	vrtReach("C08.update_during_subscribe")
}

// H08c_capped_grant: the provider caps the granted QoS below what the client
// asks for; a retained message stored at a higher QoS reaches the new
// subscription at min(stored, GRANTED) - the granted value being what the
// SUBACK reports - with its payload intact.
func H08c_capped_grant() {
	cap := vrtByte("cap")
	vrtAssume(cap <= 2)
	topics.MaxQosAllowed = 2
	b := vrtBroker("mockSuccess")
	pub, _ := b.connect(vrtConnectPkt([]byte("p"), true))
	qs := vrtByte("stored_qos")
	vrtAssume(qs <= 2)
	pk := &specPkt{Typ: specPUBLISH, Flags: 1 | qs<<1, Topic: []byte("r"), Payload: []byte("v")}
	if qs > 0 {
		pk.ID = 3
	}
	vrtExchange(pub, pk)
	if qs == 2 {
		vrtExchange(pub, &specPkt{Typ: specPUBREL, ID: 3})
	}
	topics.MaxQosAllowed = cap
	qr := vrtByte("requested_qos")
	vrtAssume(qr <= 2)
	granted := specMinQos(qr, cap)
	s, _ := b.connect(vrtConnectPkt([]byte("s"), true))
	ans := vrtExchange(s, &specPkt{Typ: specSUBSCRIBE, ID: 1, Topics: [][]byte{[]byte("r")}, QoS: []byte{qr}})
	topics.MaxQosAllowed = 2
	pkts, ok := vrtParse(ans)
	vrtAssert("C08.stream_wellformed", ok && len(pkts) == 2)
	if !(ok && len(pkts) == 2) {
		return
	}
	vrtAssert("C08.suback_reports_capped_grant", vrtAnd(pkts[0].Typ == specSUBACK, vrtAnd(len(pkts[0].Codes) == 1, len(pkts[0].Codes) == 1 && pkts[0].Codes[0] == granted)))
	r := pkts[1]
	vrtAssert("C08.retained_delivered_once", vrtAnd(r.Typ == specPUBLISH, r.Flags&1 == 1))
	vrtAssert("C08.retained_qos_downgraded", (r.Flags>>1)&3 == specMinQos(qs, granted))
	vrtAssert("C08.retained_payload_intact", vrtBytesEq(r.Payload, []byte("v")))
	vrtReach("C08.capped_grant")
}

// H08d_inprocess_retained_publish: a retained message published through the
// in-process API: an already existing network subscription is forwarded the
// message with RETAIN 0, a later subscription receives it with RETAIN 1,
// min(stored, granted) and the payload intact - also when the same payload is
// re-published with another QoS (the stored QoS is the latest one).
func H08d_inprocess_retained_publish() {
	b := vrtBroker("mockSuccess")
	e, _ := b.connect(vrtConnectPkt([]byte("e"), true))
	qe := vrtByte("qe")
	vrtAssume(qe <= 2)
	vrtExchange(e, &specPkt{Typ: specSUBSCRIBE, ID: 1, Topics: [][]byte{[]byte("r")}, QoS: []byte{qe}})
	e.peerTake()
	q1, q2 := vrtByte("q1"), vrtByte("q2")
	vrtAssume(vrtAnd(q1 <= 2, q2 <= 2))
	pub := func(q byte) {
		m := message.NewPublishMessage()
		m.SetTopic([]byte("r"))
		m.SetPayload([]byte("v"))
		m.SetQoS(q)
		m.SetRetain(true)
		vrtAssert("C08.inprocess_publish_ok", b.svr.Publish(m) == nil)
		vrtQuiesce()
		got, ok := vrtParse(e.peerTake())
		vrtAssert("C08.stream_wellformed", ok)
		vrtAssert("C08.existing_subscriber_forwarded_once", len(got) == 1)
		if len(got) == 1 {
			vrtAssert("C08.forwarded_without_retain_flag", vrtAnd(got[0].Typ == specPUBLISH, got[0].Flags&1 == 0))
			vrtAssert("C08.forwarded_qos", (got[0].Flags>>1)&3 == specMinQos(q, qe))
		}
	}
	pub(q1)
	second := vrtBool("republished_with_other_qos")
	stored := q1
	if second {
		pub(q2)
		stored = q2
	}
	late, _ := b.connect(vrtConnectPkt([]byte("late"), true))
	ql := vrtByte("ql")
	vrtAssume(ql <= 2)
	ans, ok := vrtParse(vrtExchange(late, &specPkt{Typ: specSUBSCRIBE, ID: 1, Topics: [][]byte{[]byte("r")}, QoS: []byte{ql}}))
	vrtAssert("C08.stream_wellformed", ok && len(ans) == 2)
	if ok && len(ans) == 2 {
		r := ans[1]
		vrtAssert("C08.retained_delivered_once", vrtAnd(r.Typ == specPUBLISH, r.Flags&1 == 1))
		vrtAssert("C08.retained_qos_downgraded", (r.Flags>>1)&3 == specMinQos(stored, ql))
		vrtAssert("C08.retained_payload_intact", vrtBytesEq(r.Payload, []byte("v")))
	}
	vrtReach("C08.inprocess_retained_publish")
}

// H08e_multi_filter: one SUBSCRIBE with several filters, each matching retained
// messages (the earlier filters more, fewer or as many as the later ones):
// every filter's retained messages are delivered.
func H08e_multi_filter() {
	b := vrtBroker("mockSuccess")
	pub, _ := b.connect(vrtConnectPkt([]byte("p"), true))
	for i, t := range []string{"d1/a", "d1/b", "d2/c", "d3/e", "d3/f", "d3/g"} {
		vrtExchange(pub, &specPkt{Typ: specPUBLISH, Flags: 1, Topic: []byte(t), Payload: []byte{byte('0' + i)}})
	}
	lists := [][]string{{"d1/+", "d2/c"}, {"d2/c", "d1/+"}, {"d1/+", "d3/+"}, {"d3/+", "d2/c", "d1/a"}, {"d2/c", "d2/c"}}
	L := lists[vrtChoice("filters", len(lists))]
	counts := map[string]int{"d1/+": 2, "d2/c": 1, "d3/+": 3, "d1/a": 1}
	sub := &specPkt{Typ: specSUBSCRIBE, ID: 1}
	want := 0
	seen := map[string]bool{}
	for _, f := range L {
		sub.Topics = append(sub.Topics, []byte(f))
		sub.QoS = append(sub.QoS, 0)
		if !seen[f] {
			want += counts[f]
		}
		seen[f] = true
	}
	s, _ := b.connect(vrtConnectPkt([]byte("s"), true))
	ans, ok := vrtParse(vrtExchange(s, sub))
	vrtAssert("C08.stream_wellformed", ok && len(ans) >= 1)
	if !ok || len(ans) < 1 {
		return
	}
	vrtAssert("C08.suback_first", ans[0].Typ == specSUBACK && len(ans[0].Codes) == len(L))
	// (a repeated filter may deliver its retained messages again: at least once each, nothing foreign)
	got := map[string]int{}
	for _, p := range ans[1:] {
		vrtAssert("C08.retained_delivered_once", p.Typ == specPUBLISH && p.Flags&1 == 1)
		got[string(p.Topic)]++
	}
	distinct := 0
	for range got {
		distinct++
	}
	vrtAssert("C08.every_filter_gets_its_retained_messages", distinct == want)
	vrtAssert("C08.connection_stays_open", !s.isClosed())
	vrtReach("C08.multi_filter")
}

// H08f_retained_same_id: a new subscription matches two retained messages whose stored copies carry the
// packet identifiers and DUP flags their publishers chose (solver variables: the identifiers may
// coincide with each other and with a live delivery the subscriber has not acknowledged). Every
// matching retained message must arrive, once, with its own payload and the retain flag set (round-7
// change C08-14: the outgoing queue's refusal of a second entry with an identifier still in flight
// ended the retained loop early).
func H08f_retained_same_id() {
	b := vrtBroker("mockSuccess")
	p, _ := b.connect(vrtConnectPkt([]byte("p"), true))
	s, _ := b.connect(vrtConnectPkt([]byte("s"), true))
	x0, x1, x2 := vrtUint16("id_live"), vrtUint16("id_r1"), vrtUint16("id_r2")
	vrtAssume(vrtAnd(x0 != 0, vrtAnd(x1 != 0, x2 != 0)))
	d1, d2 := vrtB2b(vrtBool("dup_r1"), 8), vrtB2b(vrtBool("dup_r2"), 8)
	vrtExchange(p, &specPkt{Typ: specPUBLISH, Flags: 2 | 1 | d1, ID: x1, Topic: []byte("r/1"), Payload: []byte("one")})
	vrtExchange(p, &specPkt{Typ: specPUBLISH, Flags: 2 | 1 | d2, ID: x2, Topic: []byte("r/2"), Payload: []byte("two")})
	withLive := vrtBool("live_delivery_in_flight")
	if withLive {
		vrtExchange(s, &specPkt{Typ: specSUBSCRIBE, ID: 1, Topics: [][]byte{[]byte("t")}, QoS: []byte{1}})
		vrtExchange(p, &specPkt{Typ: specPUBLISH, Flags: 2, ID: x0, Topic: []byte("t"), Payload: []byte("live")})
		got, ok := vrtParse(s.peerTake())
		vrtAssert("C08.harness_live_delivery", ok && len(got) == 1 && got[0].Typ == specPUBLISH)
	}
	filters := [][]byte{[]byte("r/+")}
	qos := []byte{1}
	if vrtBool("two_filters") {
		filters = [][]byte{[]byte("r/1"), []byte("r/2")}
		qos = []byte{1, 1}
	}
	got, ok := vrtParse(vrtExchange(s, &specPkt{Typ: specSUBSCRIBE, ID: 2, Topics: filters, QoS: qos}))
	vrtAssert("C08.stream_wellformed", ok)
	n1, n2, acks := 0, 0, 0
	for _, g := range got {
		if g.Typ == specSUBACK {
			acks++
			continue
		}
		vrtAssert("C08.only_publishes_besides_the_suback", g.Typ == specPUBLISH)
		vrtAssert("C08.retain_flag_set_on_subscribe", g.Flags&1 == 1)
		vrtAssert("C08.retained_qos_downgraded", (g.Flags>>1)&3 == 1)
		if vrtBytesEq(g.Topic, []byte("r/1")) {
			n1++
			vrtAssert("C08.retained_payload", vrtBytesEq(g.Payload, []byte("one")))
		}
		if vrtBytesEq(g.Topic, []byte("r/2")) {
			n2++
			vrtAssert("C08.retained_payload", vrtBytesEq(g.Payload, []byte("two")))
		}
	}
	vrtAssert("C08.suback_sent", acks == 1)
	vrtAssert("C08.every_matching_retained_message_once", n1 == 1 && n2 == 1)
	vrtReach("C08.retained_same_id")
}

// H08s_boundary_retained: a retained message stored at QoS 1 / 2 whose remaining length is 127..131 is
// delivered to a new subscription granted a LOWER QoS: the copy that is downgraded loses its packet
// identifier, so its remaining length drops by two - across the point where the length field itself
// shrinks from two bytes to one. Topic and every payload byte arrive, the packet has the size its header
// announces, the retain flag is set (round-8 change C08-15: a downgrade helper that copied topic and
// payload at the SOURCE packet's header length). The second subscription (same filter, higher grant)
// gets the stored QoS again: the stored copy is not touched.
func H08s_boundary_retained() {
	b := vrtBroker("mockSuccess")
	p, _ := b.connect(vrtConnectPkt([]byte("p"), true))
	targets := []int{127, 128, 129, 130, 131}
	R := targets[vrtChoice("stored_remaining_length", len(targets))]
	sq := 1 + byte(vrtChoice("stored_qos", 2))
	payload := make([]byte, R-2-3-2) // 2 + len("r/x") + 2 (identifier) + payload
	for i := range payload {
		payload[i] = byte('a' + i%23)
	}
	payload[0], payload[len(payload)-1] = vrtByte("first"), vrtByte("last")
	want := append([]byte(nil), payload...)
	if sq == 1 {
		vrtExchange(p, &specPkt{Typ: specPUBLISH, Flags: 2 | 1, ID: 9, Topic: []byte("r/x"), Payload: payload})
	} else {
		vrtExchange(p, &specPkt{Typ: specPUBLISH, Flags: 4 | 1, ID: 9, Topic: []byte("r/x"), Payload: payload}, &specPkt{Typ: specPUBREL, Flags: 2, ID: 9})
	}
	gq := byte(vrtChoice("granted", int(sq))) // lower than the stored QoS
	viaAPI := vrtBool("inprocess_subscriber")
	if viaAPI {
		in := vrtNewInproc()
		vrtAssert("C08.inprocess_subscribe_ok", b.svr.Subscribe("r/+", gq, &in.fn) == nil)
		got := in.take()
		vrtAssert("C08.boundary_retained_delivered_once", len(got) == 1)
		if len(got) == 1 {
			vrtAssert("C08.boundary_retained_bytes", vrtAnd(vrtBytesEq(got[0].Topic, []byte("r/x")), vrtBytesEq(got[0].Payload, want)))
			vrtAssert("C08.retained_qos_downgraded", (got[0].Flags>>1)&3 == gq)
		}
	} else {
		s, _ := b.connect(vrtConnectPkt([]byte("s"), true))
		raw := vrtExchange(s, &specPkt{Typ: specSUBSCRIBE, ID: 1, Topics: [][]byte{[]byte("r/+")}, QoS: []byte{gq}})
		got, ok := vrtParse(raw)
		vrtAssert("C08.stream_wellformed", ok)
		vrtAssert("C08.boundary_retained_delivered_once", ok && len(got) == 2 && got[0].Typ == specSUBACK && got[1].Typ == specPUBLISH)
		if ok && len(got) == 2 {
			vrtAssert("C08.boundary_retained_bytes", vrtAnd(vrtBytesEq(got[1].Topic, []byte("r/x")), vrtBytesEq(got[1].Payload, want)))
			vrtAssert("C08.retained_qos_downgraded", (got[1].Flags>>1)&3 == gq)
			vrtAssert("C08.retain_flag_set_on_subscribe", got[1].Flags&1 == 1)
		}
	}
	// a later subscription with a grant at least as high as the stored QoS gets the stored QoS: the stored copy is intact
	s2, _ := b.connect(vrtConnectPkt([]byte("s2"), true))
	got2, ok2 := vrtParse(vrtExchange(s2, &specPkt{Typ: specSUBSCRIBE, ID: 1, Topics: [][]byte{[]byte("r/x")}, QoS: []byte{2}}))
	vrtAssert("C08.boundary_retained_delivered_once", ok2 && len(got2) == 2 && got2[1].Typ == specPUBLISH)
	if ok2 && len(got2) == 2 {
		vrtAssert("C08.stored_copy_intact", vrtAnd((got2[1].Flags>>1)&3 == sq, vrtBytesEq(got2[1].Payload, want)))
	}
	vrtReach("C08.boundary_retained")
}

// H08m_many_retained: one SUBSCRIBE with two or three filters that match 9..12 retained messages in total,
// stored at QoS 0..2 (so some are above the grant and must be downgraded, some not): every matching
// message arrives once per matching filter, in the QoS min(stored, granted), with its own payload and the
// retain flag (round-8 change C08-16: a working list that is re-sliced per filter loses the downgraded
// copies of the early filters when a later filter makes it grow past its capacity).
func H08m_many_retained() {
	b := vrtBroker("mockSuccess")
	p, _ := b.connect(vrtConnectPkt([]byte("p"), true))
	n := 9 + vrtChoice("retained_messages", 4)
	for i := 0; i < n; i++ {
		q := byte(i % 3)
		top := []byte{'a' + byte(i%2), '/', 'k', 'a' + byte(i)}
		pk := &specPkt{Typ: specPUBLISH, Flags: q<<1 | 1, ID: uint16(20 + i), Topic: top, Payload: []byte{'p', 'a' + byte(i)}}
		if q == 2 {
			vrtExchange(p, pk, &specPkt{Typ: specPUBREL, Flags: 2, ID: uint16(20 + i)})
		} else {
			vrtExchange(p, pk)
		}
	}
	g0, g1 := vrtByte("granted_a"), vrtByte("granted_b")
	vrtAssume(vrtAnd(g0 <= 2, g1 <= 2))
	g0, g1 = vrtConcretizeByte(g0), vrtConcretizeByte(g1)
	filters := [][]byte{[]byte("a/+"), []byte("b/+")}
	qos := []byte{g0, g1}
	if vrtBool("third_filter") {
		filters = append(filters, []byte("a/ka"))
		qos = append(qos, 2)
	}
	s, _ := b.connect(vrtConnectPkt([]byte("s"), true))
	got, ok := vrtParse(vrtExchange(s, &specPkt{Typ: specSUBSCRIBE, ID: 1, Topics: filters, QoS: qos}))
	vrtAssert("C08.stream_wellformed", ok && len(got) >= 1 && got[0].Typ == specSUBACK)
	if !ok {
		return
	}
	for i := 0; i < n; i++ {
		top := []byte{'a' + byte(i%2), '/', 'k', 'a' + byte(i)}
		stored := byte(i % 3)
		grant := qos[i%2]
		// ("a/ka", the message of i == 0, is stored at QoS 0: its second copy for the third filter is QoS 0 as well)
		want, seen := 1, 0
		if i == 0 && len(filters) == 3 {
			want = 2
		}
		for _, g := range got[1:] {
			if g.Typ == specPUBLISH && vrtBytesEq(g.Topic, top) {
				vrtAssert("C08.retained_payload", vrtBytesEq(g.Payload, []byte{'p', 'a' + byte(i)}))
				vrtAssert("C08.retain_flag_set_on_subscribe", g.Flags&1 == 1)
				vrtAssert("C08.retained_qos_downgraded", (g.Flags>>1)&3 == specMinQos(stored, grant))
				seen++
			}
		}
		vrtAssert("C08.every_matching_retained_message_once", seen == want)
	}
	vrtAssert("C08.nothing_else_delivered", len(got)-1 == n+len(filters)-2)
	vrtReach("C08.many_retained")
}

// H08g_inprocess_subscriber_busy: an in-process subscription (Server.Subscribe) granted a LOWER QoS than a
// retained message was stored with is still inside its callback for that message - the callback takes
// its time - when a network client subscribes to the same topic with a grant at least as high as the
// stored QoS: the client receives the retained message at the stored QoS (min(stored, granted)), with
// the retain flag and its payload; the in-process subscriber got it at its own grant (round-9 change
// C08-17: instead of cloning, the stored message itself was set to the lower QoS for the duration of
// the callback and set back afterwards).
func H08g_inprocess_subscriber_busy() {
	b := vrtBroker("mockSuccess")
	p, _ := b.connect(vrtConnectPkt([]byte("p"), true))
	sq := 1 + byte(vrtChoice("stored_qos", 2))
	if sq == 1 {
		vrtExchange(p, &specPkt{Typ: specPUBLISH, Flags: 2 | 1, ID: 9, Topic: []byte("r"), Payload: []byte("kept")})
	} else {
		vrtExchange(p, &specPkt{Typ: specPUBLISH, Flags: 4 | 1, ID: 9, Topic: []byte("r"), Payload: []byte("kept")}, &specPkt{Typ: specPUBREL, Flags: 2, ID: 9})
	}
	g := vrtNewGate()
	var seenQoS byte = 0xff
	slow := OnPublishFunc(func(m *message.PublishMessage) error {
		seenQoS = m.QoS()
		return g.fn(m)
	})
	low := byte(vrtChoice("inprocess_grant", int(sq))) // below the stored QoS
	vrtGo(func() { b.svr.Subscribe("r", low, &slow) })
	vrtQuiesce() // the in-process subscriber is now inside its callback
	s, _ := b.connect(vrtConnectPkt([]byte("s"), true))
	got, ok := vrtParse(vrtExchange(s, &specPkt{Typ: specSUBSCRIBE, ID: 1, Topics: [][]byte{[]byte("r")}, QoS: []byte{2}}))
	vrtAssert("C08.stream_wellformed", ok)
	vrtAssert("C08.retained_delivered_on_subscribe", ok && len(got) == 2 && got[1].Typ == specPUBLISH)
	if ok && len(got) == 2 {
		vrtAssert("C08.retained_qos_downgraded", (got[1].Flags>>1)&3 == sq)
		vrtAssert("C08.retain_flag_set_on_subscribe", got[1].Flags&1 == 1)
		vrtAssert("C08.retained_payload", vrtBytesEq(got[1].Payload, []byte("kept")))
	}
	g.release()
	vrtJoin()
	vrtAssert("C08.inprocess_subscriber_gets_its_own_grant", seenQoS == low)
	// and afterwards the stored copy is what it was
	s2, _ := b.connect(vrtConnectPkt([]byte("s2"), true))
	got2, ok2 := vrtParse(vrtExchange(s2, &specPkt{Typ: specSUBSCRIBE, ID: 1, Topics: [][]byte{[]byte("r")}, QoS: []byte{2}}))
	vrtAssert("C08.stored_copy_intact", ok2 && len(got2) == 2 && (got2[1].Flags>>1)&3 == sq)
	vrtReach("C08.inprocess_subscriber_busy")
}
