//go:build verif

package service

import "io"

// C15: ring buffer blocking is live. The real buffer code runs in two or
// three interpreter threads under the exploring scheduler (every preemption
// at a lock / condition-variable / atomic operation within the preemption
// bound); a state in which an unfinished thread can never run is a deadlock.

func vrtRing15() (*buffer, int64, bool) {
	bf, err := newBuffer(1)
	if err != nil {
		panic(err)
	}
	bf.buf = vrtArrayBytes(int(bf.size))
	// fill states: empty, one byte, one free byte, full, two free bytes; consumer cursor at 0 or just before the wrap (there with a stale producer-side cache of it)
	var avail int64
	switch vrtChoice("fill", 5) {
	case 0:
		avail = 0
	case 1:
		avail = 1
	case 2:
		avail = bf.size - 1
	case 3:
		avail = bf.size
	case 4:
		avail = bf.size - 2 // a write of 2 fits exactly
	}
	c := int64(0)
	if vrtChoice("pos", 2) == 1 {
		c = 3*bf.size - 1
	}
	bf.cseq.set(c)
	bf.pseq.set(c + avail)
	bf.pseq.gate = c
	if c != 0 {
		bf.pseq.gate = c - 7 // the producer's cached consumer position is stale
	}
	return bf, avail, c != 0
}

func vrtIsEOF(err error) bool { return err == io.EOF }

// H15_pair: consumer operation || producer operation (|| Close).
func H15_pair() {
	bf, avail, nearWrap := vrtRing15()
	cop := vrtChoice("cop", 4)  // Read, ReadPeek+ReadCommit, ReadWait(2)+ReadCommit, none
	pop := vrtChoice("pop", 3)  // Write(2 bytes), WriteWait(2)+WriteCommit(2), none
	closes := vrtChoice("closes", 3)
	var cerr, perr error
	cdone, pdone := false, false
	if cop < 3 {
		vrtGo(func() {
			switch cop {
			case 0:
				_, cerr = bf.Read(make([]byte, 2))
			case 1:
				var b []byte
				b, cerr = bf.ReadPeek(2)
				if cerr == nil || cerr == ErrBufferInsufficientData {
					if _, e := bf.ReadCommit(len(b)); e != nil {
						cerr = e
					}
				}
			case 2:
				_, cerr = bf.ReadWait(2)
				if cerr == nil {
					_, cerr = bf.ReadCommit(2)
				}
			}
			cdone = true
		})
	}
	if pop < 2 {
		vrtGo(func() {
			switch pop {
			case 0:
				_, perr = bf.Write([]byte{1, 2})
			case 1:
				_, _, perr = bf.WriteWait(2)
				if perr == nil {
					_, perr = bf.WriteCommit(2)
				}
			}
			pdone = true
		})
	}
	for i := 0; i < closes; i++ {
		vrtGo(func() { bf.Close() })
	}
	// Who is guaranteed to finish without Close?
	produced := int64(0)
	if pop < 2 && avail+2 <= bf.size {
		produced = 2
	}
	consumerSatisfiable := (cop == 2 && avail+produced >= 2) || (cop < 2 && avail+produced >= 1) || cop == 3
	// (a Read of 2 frees the space, unless it is cut short at the wrap point; a committed peek / wait of 2 frees it too)
	producerSatisfiable := pop == 2 || avail+2 <= bf.size || (cop == 0 && avail >= 2 && !nearWrap) || ((cop == 1 || cop == 2) && avail >= 2)
	if closes == 0 && !(consumerSatisfiable && producerSatisfiable) {
		return // somebody legitimately waits for ever: not a scenario of the property
	}
	vrtJoin() // deadlock here = some thread can never proceed
	vrtReach("C15.all_returned")
	if closes == 0 {
		vrtAssert("C15.consumer_got_data", cerr == nil || cerr == ErrBufferInsufficientData)
		vrtAssert("C15.producer_wrote", perr == nil)
	}
	_ = cdone
	_ = pdone
	// afterwards every call still returns (no mutex was left locked), Close can be repeated
	if closes > 0 {
		vrtAssert("C15.close_again_returns", bf.Close() == nil)
		_, e1 := bf.Write([]byte{9})
		vrtAssert("C15.write_after_close_eof", vrtIsEOF(e1))
		_, _, e2 := bf.WriteWait(1)
		vrtAssert("C15.writewait_after_close_eof", vrtIsEOF(e2))
		if bf.Len() == 0 {
			_, e3 := bf.Read(make([]byte, 1))
			vrtAssert("C15.read_after_close_eof", vrtIsEOF(e3))
			_, e4 := bf.ReadPeek(1)
			vrtAssert("C15.peek_after_close_eof", vrtIsEOF(e4))
		}
		_, e5 := bf.ReadWait(int(bf.size))
		vrtAssert("C15.readwait_after_close_eof", vrtOr(vrtIsEOF(e5), bf.Len() == int(bf.size)))
		vrtAssert("C15.close_third_time_returns", bf.Close() == nil)
		vrtReach("C15.probed_after_close")
	}
}

// H15_large_request: producer requests that are large against the ring (16384 bytes). (a) 6000 bytes are
// unread, the producer asks for 12000 - more than one read block, and more than is free - and parks; the
// consumer then commits 2000 bytes, after which the request fits: the producer must be woken and finish
// (round-8 change C15-15: consumer-side commits skipped the wake-up whenever a whole read block was free
// before the commit, "the producer only parks when less than a block is left"). (b) a request larger than
// the whole ring can never be satisfied: it waits until the ring is closed and then returns, and every
// later call still returns (round-8 change C15-16: such a request was refused from inside the wait loop
// with the producer's mutex still locked). Exploring scheduler.
func H15_large_request() {
	bf, err := newBuffer(1)
	if err != nil {
		panic(err)
	}
	var c int64
	switch vrtChoice("pos", 3) {
	case 1:
		c = bf.size - 100
	case 2:
		c = 3*bf.size + 5000
	}
	oversize := vrtBool("larger_than_the_ring")
	unread := int64(6000)
	bf.cseq.set(c)
	bf.pseq.set(c + unread)
	bf.pseq.gate = c
	n := 12000
	if oversize {
		n = int(bf.size) + 1
	}
	pop := vrtChoice("pop", 2)
	cop := vrtChoice("cop", 3)
	var perr, cerr error
	data := make([]byte, n)
	vrtGo(func() {
		if pop == 0 {
			_, perr = bf.Write(data)
		} else {
			_, _, perr = bf.WriteWait(n)
			if perr == nil {
				_, perr = bf.WriteCommit(n)
			}
		}
	})
	vrtGo(func() {
		switch cop {
		case 0:
			_, cerr = bf.ReadCommit(2000)
		case 1:
			// (a Read that reaches the end of the ring array returns what lies before it: read on)
			for got := 0; got < 2000 && cerr == nil; {
				var k int
				k, cerr = bf.Read(make([]byte, 2000-got))
				got += k
			}
		case 2:
			var b []byte
			b, cerr = bf.ReadPeek(2000)
			if cerr == nil {
				_, cerr = bf.ReadCommit(len(b))
			}
		}
		if oversize {
			bf.Close()
		}
	})
	vrtJoin() // deadlock here = somebody can never proceed
	vrtAssert("C15.consumer_got_data", cerr == nil)
	if oversize {
		vrtAssert("C15.oversized_request_ends_with_the_ring", perr != nil)
	} else {
		vrtAssert("C15.producer_wrote", perr == nil)
		vrtAssert("C15.large_request_accounted", bf.pseq.get()-bf.cseq.get() >= unread-2000+int64(n)-100)
	}
	// afterwards every call still returns (no mutex was left locked)
	vrtAssert("C15.close_again_returns", bf.Close() == nil)
	_, e1 := bf.Write([]byte{9})
	vrtAssert("C15.write_after_close_eof", vrtIsEOF(e1))
	_, e2 := bf.ReadCommit(1)
	_ = e2
	vrtAssert("C15.close_third_time_returns", bf.Close() == nil)
	vrtReach("C15.large_request")
}
