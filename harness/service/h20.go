//go:build verif

package service

import (
	"fmt"

	"github.com/mdzio/go-mqtt/message"
)

// C20: client library - connect results and callback dispatch mirror the protocol.

// H20_connect: Client.Connect against a server that answers with arbitrary bytes.
func H20_connect() {
	c := vrtNewConn()
	vrtSetDialConn(c)
	before := vrtLiveThreads()
	answer := vrtBytesL("connack", 4)
	cut := vrtBool("server_closes")
	var cerr error
	cln := &Client{}
	vrtGo(func() {
		m := message.NewConnectMessage()
		m.SetVersion(4)
		vrtClientSeq++
		m.SetClientID([]byte(fmt.Sprintf("cl%d", vrtClientSeq)))
		m.SetCleanSession(true)
		cerr = cln.Connect(vrtDialURI(), m)
	})
	vrtQuiesce()
	sent, okc := vrtParse(c.peerTake())
	vrtAssert("C20.connect_sends_one_connect", vrtAnd(okc, vrtAnd(len(sent) == 1, len(sent) == 1 && sent[0].Typ == specCONNECT)))
	// the answer may arrive in two TCP segments
	split := vrtChoice("split", len(answer)+1)
	c.peerSend(answer[:split])
	vrtQuiesce()
	c.peerSend(answer[split:])
	_, _, remlen, hdr, fok := specFrame(answer)
	complete := fok && len(answer) >= hdr+remlen
	if cut || len(answer) < 4 {
		c.peerClose()
	} else if !complete {
		// the server announced more bytes than it sends: the client's connect timeout expires
		vrtQuiesce()
		c.peerExpireDeadline()
	}
	vrtJoin()
	vrtQuiesce()
	accepted := false
	refusedCode := byte(0)
	if len(answer) == 4 {
		frame := vrtAnd(answer[0] == 0x20, answer[1] == 2)
		valid := vrtAnd(frame, vrtAnd(answer[2] <= 1, answer[3] <= 5))
		if valid {
			if answer[3] == 0 {
				accepted = true
			} else {
				refusedCode = vrtConcretizeByte(answer[3])
			}
		}
	}
	switch {
	case accepted:
		vrtAssert("C20.connect_succeeds_on_code_0", cerr == nil)
		vrtReach("C20.connected")
		cln.Disconnect()
		vrtQuiesce()
	case refusedCode != 0:
		cc, isCode := cerr.(message.ConnackCode)
		vrtAssert("C20.refusal_code_is_the_error", vrtAnd(isCode, byte(cc) == refusedCode))
		vrtReach("C20.refused")
	default:
		vrtAssert("C20.anything_else_is_an_error", cerr != nil)
		vrtReach("C20.garbage_answer")
	}
	if !accepted {
		vrtAssert("C20.connection_closed_after_failure", c.isClosed())
	}
	if after := vrtLiveThreads(); after >= 0 {
		vrtAssert("C20.no_goroutine_left_behind", after == before)
	}
	vrtObserve("connect", cerr, c.isClosed())
}

func vrtConcretizeByte(b byte) byte { return byte(vrtConcretize(int(b))) }

// H20_dispatch: subscribe with a counting callback, inbound publishes, unsubscribe.
func H20_dispatch() {
	V := vrtBound("N20levels", 2)
	K := vrtBound("N20packets", 3)
	svc, c := vrtClientService()
	cln := &Client{svc: svc}
	calls := 0
	var lastTopic, lastPayload []byte
	cb := OnPublishFunc(func(m *message.PublishMessage) error {
		calls++
		lastTopic = append([]byte(nil), m.Topic()...)
		lastPayload = append([]byte(nil), m.Payload()...)
		return nil
	})
	completions := 0
	var cerr error
	done := OnCompleteFunc(func(msg, ack message.Message, err error) error {
		completions++
		cerr = err
		return nil
	})
	F := vrtLevelName("F", V, true)
	vrtAssume(specFilterValid(F))
	code := vrtByte("suback_code")
	vrtAssume(vrtOr(code <= 2, code == 0x80))
	sm := message.NewSubscribeMessage()
	sm.AddTopic(F, 2)
	vrtAssert("C20.subscribe_call_ok", cln.Subscribe(sm, done, cb) == nil)
	vrtQuiesce()
	req, okr := vrtParse(c.peerTake())
	vrtAssert("C20.subscribe_on_the_wire", vrtAnd(okr, vrtAnd(len(req) == 1, len(req) == 1 && req[0].Typ == specSUBSCRIBE)))
	if len(req) != 1 {
		return
	}
	c.peerSend(specEncode(&specPkt{Typ: specSUBACK, ID: req[0].ID, Codes: []byte{code}}))
	vrtQuiesce()
	vrtAssert("C20.subscribe_completed_once", completions == 1)
	granted := code != 0x80
	vrtAssert("C20.subscribe_error_iff_refused", (cerr != nil) == !granted)
	// inbound traffic
	var pending []vrtPending
	for k := 0; k < K; k++ {
		kind := vrtChoice("kind", 4) // PUBLISH q0, q1, q2, PUBREL
		id := vrtUint16("id")
		vrtAssume(id != 0)
		T := vrtLevelName("T", V, false)
		payload := vrtByte("payload")
		dup := vrtBool("dup")
		want := 0
		var wantReply []byte
		match := vrtAnd(granted, specMatch(F, T))
		switch kind {
		case 0, 1, 2:
			pk := &specPkt{Typ: specPUBLISH, Flags: byte(kind)<<1 | vrtB2b(dup, 8), Topic: T, Payload: []byte{payload}}
			if kind > 0 {
				pk.ID = id
			}
			c.peerSend(specEncode(pk))
			switch kind {
			case 0:
				want = vrtConcretize(vrtIteInt(match, 1, 0))
			case 1:
				want = vrtConcretize(vrtIteInt(match, 1, 0))
				wantReply = []byte{0x40, 2, byte(id >> 8), byte(id)}
			case 2:
				wantReply = []byte{0x50, 2, byte(id >> 8), byte(id)}
				known := false
				for i := range pending {
					if pending[i].id == id {
						known = true
					}
				}
				if !known {
					pending = append(pending, vrtPending{id: id, payload: vrtB2b(match, 1), released: false})
				}
			}
		case 3:
			c.peerSend(specEncode(&specPkt{Typ: specPUBREL, ID: id}))
			wantReply = []byte{0x70, 2, byte(id >> 8), byte(id)}
			for i := range pending {
				if pending[i].id == id {
					pending[i].released = true
				}
			}
			for len(pending) > 0 && pending[0].released {
				want += vrtConcretize(int(pending[0].payload))
				pending = pending[1:]
			}
		}
		before := calls
		vrtQuiesce()
		vrtAssert("C20.acknowledges_like_a_receiver", vrtBytesEq(c.peerTake(), wantReply))
		vrtAssert("C20.callback_once_per_matching_message", calls-before == want)
		if want == 1 && kind < 2 && calls-before == 1 {
			vrtAssert("C20.callback_gets_the_message", vrtAnd(vrtBytesEq(lastTopic, T), vrtBytesEq(lastPayload, []byte{payload})))
			vrtReach("C20.dispatched")
		}
	}
	// unsubscribe: afterwards nothing is dispatched
	um := message.NewUnsubscribeMessage()
	um.AddTopic(F)
	vrtAssert("C20.unsubscribe_call_ok", cln.Unsubscribe(um, done) == nil)
	vrtQuiesce()
	ureq, oku := vrtParse(c.peerTake())
	if !oku || len(ureq) != 1 || ureq[0].Typ != specUNSUBSCRIBE {
		vrtAssert("C20.unsubscribe_on_the_wire", false)
		return
	}
	c.peerSend(specEncode(&specPkt{Typ: specUNSUBACK, ID: ureq[0].ID}))
	vrtQuiesce()
	vrtAssert("C20.unsubscribe_completed", completions == 2)
	before := calls
	T2 := vrtLevelName("T2", V, false)
	c.peerSend(specEncode(&specPkt{Typ: specPUBLISH, Topic: T2, Payload: []byte("z")}))
	vrtQuiesce()
	vrtAssert("C20.nothing_after_unsubscribe", calls == before)
	vrtObserve("dispatch", calls, completions)
	vrtReach("C20.done")
	svc.stop()
}

// H20_two_requests: two completed Subscribe requests whose filters overlap;
// every inbound message is handed exactly once to the callback of each
// request it matches - also when one of the callbacks returns an error.
func H20_two_requests() {
	svc, c := vrtClientService()
	cln := &Client{svc: svc}
	failing := vrtChoice("failing", 3) // which callback reports an error (2: none)
	filters := [2][]byte{[]byte("a/+"), []byte("a/b")}
	if vrtBool("same_filter") {
		filters[1] = filters[0]
	}
	calls := [2]int{}
	completions := 0
	done := OnCompleteFunc(func(msg, ack message.Message, err error) error {
		completions++
		return nil
	})
	for i := 0; i < 2; i++ {
		i := i
		cb := OnPublishFunc(func(m *message.PublishMessage) error {
			calls[i]++
			if failing == i {
				return fmt.Errorf("callback %d failed", i)
			}
			return nil
		})
		sm := message.NewSubscribeMessage()
		sm.AddTopic(filters[i], 1)
		vrtAssert("C20.subscribe_call_ok", cln.Subscribe(sm, done, cb) == nil)
		vrtQuiesce()
		req, okr := vrtParse(c.peerTake())
		if !okr || len(req) != 1 || req[0].Typ != specSUBSCRIBE {
			vrtAssert("C20.subscribe_on_the_wire", false)
			return
		}
		c.peerSend(specEncode(&specPkt{Typ: specSUBACK, ID: req[0].ID, Codes: []byte{1}}))
		vrtQuiesce()
	}
	vrtAssert("C20.subscribes_completed", completions == 2)
	// (a topic in the $ space matches no filter that does not start with $ - and must not inherit the previous answer)
	topicsIn := [][]byte{[]byte("a/b"), []byte("$SYS/x"), []byte("a/c"), []byte("$a/b"), []byte("b")}
	q := vrtByte("qos")
	vrtAssume(q <= 1)
	for _, T := range topicsIn {
		before := calls
		pk := &specPkt{Typ: specPUBLISH, Flags: q << 1, Topic: T, Payload: []byte("m")}
		if q > 0 {
			pk.ID = 9
		}
		c.peerSend(specEncode(pk))
		vrtQuiesce()
		c.peerTake()
		for i := 0; i < 2; i++ {
			want := 0
			if T[0] != '$' && specMatch(filters[i], T) {
				want = 1
			}
			vrtAssert("C20.callback_once_per_matching_message", calls[i]-before[i] == want)
		}
	}
	vrtAssert("C20.connection_survives_callback_error", !c.isClosed())
	// Unsubscribe of the second request's filter: the first request's filter (which shares the leading level) stays
	if string(filters[0]) != string(filters[1]) {
		um := message.NewUnsubscribeMessage()
		um.AddTopic(filters[1])
		vrtAssert("C20.unsubscribe_call_ok", cln.Unsubscribe(um, done) == nil)
		vrtQuiesce()
		ureq, oku := vrtParse(c.peerTake())
		if !oku || len(ureq) != 1 || ureq[0].Typ != specUNSUBSCRIBE {
			vrtAssert("C20.unsubscribe_on_the_wire", false)
			return
		}
		c.peerSend(specEncode(&specPkt{Typ: specUNSUBACK, ID: ureq[0].ID}))
		vrtQuiesce()
		before := calls
		c.peerSend(specEncode(&specPkt{Typ: specPUBLISH, Topic: []byte("a/b"), Payload: []byte("m")}))
		vrtQuiesce()
		vrtAssert("C20.other_request_unaffected_by_unsubscribe", calls[0]-before[0] == 1)
		vrtAssert("C20.nothing_after_unsubscribe", calls[1] == before[1])
	}
	vrtObserve("two", calls[0], calls[1])
	vrtReach("C20.two_requests")
	svc.stop()
}

// H20_last_messages: the server delivers application messages and closes the
// connection right behind them (the bytes and the end of the stream reach the
// client's receiver together, possibly in one Read): every message the server
// delivered is still handed to the callback exactly once.
func H20_last_messages() {
	svc, c := vrtClientService()
	cln := &Client{svc: svc}
	var seen [][]byte
	cb := OnPublishFunc(func(m *message.PublishMessage) error {
		seen = append(seen, append([]byte(nil), m.Payload()...))
		return nil
	})
	sm := message.NewSubscribeMessage()
	sm.AddTopic([]byte("t"), 1)
	vrtAssert("C20.subscribe_call_ok", cln.Subscribe(sm, nil, cb) == nil)
	vrtQuiesce()
	req, okr := vrtParse(c.peerTake())
	if !okr || len(req) != 1 || req[0].Typ != specSUBSCRIBE {
		vrtAssert("C20.subscribe_on_the_wire", false)
		return
	}
	c.peerSend(specEncode(&specPkt{Typ: specSUBACK, ID: req[0].ID, Codes: []byte{1}}))
	vrtQuiesce()
	n := 1 + vrtChoice("messages", 3)
	q := byte(vrtChoice("qos", 2))
	var last []byte
	for i := 0; i < n; i++ {
		pk := &specPkt{Typ: specPUBLISH, Flags: q << 1, Topic: []byte("t"), Payload: []byte{byte('a' + i)}}
		if q > 0 {
			pk.ID = uint16(20 + i)
		}
		last = append(last, specEncode(pk)...)
	}
	c.mu.Lock()
	c.eofWithLast = vrtBool("eof_with_last_bytes")
	c.peerClosed = true
	c.in = append(c.in, last...)
	c.cond.Broadcast()
	c.mu.Unlock()
	vrtQuiesce()
	vrtAssert("C20.callback_once_per_matching_message", len(seen) == n)
	for i := 0; i < len(seen) && i < n; i++ {
		vrtAssert("C20.callback_gets_the_message", len(seen[i]) == 1 && seen[i][0] == byte('a'+i))
	}
	vrtReach("C20.last_messages")
	svc.stop()
}

// H20_reconnect: Connect is accepted, the connection ends (the server closes
// it, or the application calls Disconnect), and the application connects again
// with the SAME client id: the second Connect succeeds as well, and a
// subscription made on the new connection is served.
func H20_reconnect() {
	vrtClientSeq++
	id := []byte(fmt.Sprintf("re%d", vrtClientSeq))
	connect := func(cln *Client) (*vrtConn, error) {
		c := vrtNewConn()
		vrtSetDialConn(c)
		var cerr error
		vrtGo(func() {
			m := message.NewConnectMessage()
			m.SetVersion(4)
			m.SetClientID(id)
			m.SetCleanSession(true)
			cerr = cln.Connect(vrtDialURI(), m)
		})
		vrtQuiesce()
		c.peerTake()
		c.peerSend([]byte{0x20, 2, 0, 0})
		vrtJoin()
		vrtQuiesce()
		return c, cerr
	}
	cln1 := &Client{}
	c1, e1 := connect(cln1)
	vrtAssert("C20.connect_succeeds_on_code_0", e1 == nil)
	if vrtBool("server_closes_first_connection") {
		c1.peerClose()
		vrtQuiesce()
	} else {
		cln1.Disconnect()
		vrtQuiesce()
	}
	cln2 := &Client{}
	c2, e2 := connect(cln2)
	vrtAssert("C20.second_connect_succeeds", e2 == nil)
	if e2 != nil {
		return
	}
	calls := 0
	sm := message.NewSubscribeMessage()
	sm.AddTopic([]byte("t"), 0)
	vrtAssert("C20.subscribe_call_ok", cln2.Subscribe(sm, nil, func(m *message.PublishMessage) error { calls++; return nil }) == nil)
	vrtQuiesce()
	req, okr := vrtParse(c2.peerTake())
	if !okr || len(req) != 1 || req[0].Typ != specSUBSCRIBE {
		vrtAssert("C20.subscribe_on_the_wire", false)
		return
	}
	c2.peerSend(specEncode(&specPkt{Typ: specSUBACK, ID: req[0].ID, Codes: []byte{0}}))
	c2.peerSend(specEncode(&specPkt{Typ: specPUBLISH, Topic: []byte("t"), Payload: []byte("m")}))
	vrtQuiesce()
	vrtAssert("C20.callback_once_per_matching_message", calls == 1)
	cln2.Disconnect()
	vrtQuiesce()
	vrtReach("C20.reconnected")
}

// H20_connack_with_more_behind: the server's CONNACK arrives in one segment together with what it sends
// right behind it (a PUBLISH that was queued for the session, a PINGRESP...), or split after any of its
// four bytes. Connect takes exactly the CONNACK off the stream: it succeeds, the connection stays up, and
// a subscription made afterwards is acknowledged and served (round-9 change C20-18: the fixed header was
// fetched with one read of up to five bytes, and the fifth - the first byte of the next packet - was
// dropped).
func H20_connack_with_more_behind() {
	vrtClientSeq++
	id := []byte(fmt.Sprintf("cm%d", vrtClientSeq))
	c := vrtNewConn()
	vrtSetDialConn(c)
	cln := &Client{}
	var cerr error
	vrtGo(func() {
		m := message.NewConnectMessage()
		m.SetVersion(4)
		m.SetClientID(id)
		m.SetCleanSession(true)
		cerr = cln.Connect(vrtDialURI(), m)
	})
	vrtQuiesce()
	c.peerTake()
	behind := [][]byte{
		specEncode(&specPkt{Typ: specPUBLISH, Topic: []byte("q"), Payload: []byte("queued")}),
		{0xd0, 0},
		nil,
	}[vrtChoice("behind_the_connack", 3)]
	stream := append([]byte{0x20, 2, 0, 0}, behind...)
	cut := vrtChoice("first_segment", 5) // 0: everything in one segment; 1..4: split after that many bytes
	if cut == 0 {
		c.peerSend(stream)
	} else {
		c.peerSend(stream[:cut])
		vrtQuiesce()
		c.peerSend(stream[cut:])
	}
	vrtJoin()
	vrtQuiesce()
	vrtAssert("C20.connect_succeeds_on_code_0", cerr == nil)
	if cerr != nil {
		return
	}
	vrtAssert("C20.connection_stays_up", !c.isClosed())
	calls := 0
	sm := message.NewSubscribeMessage()
	sm.AddTopic([]byte("t"), 0)
	completed := 0
	vrtAssert("C20.subscribe_call_ok", cln.Subscribe(sm, func(msg, ack message.Message, err error) error { completed++; return nil }, func(m *message.PublishMessage) error { calls++; return nil }) == nil)
	vrtQuiesce()
	req, okr := vrtParse(c.peerTake())
	if !okr || len(req) != 1 || req[0].Typ != specSUBSCRIBE {
		vrtAssert("C20.subscribe_on_the_wire", false)
		return
	}
	c.peerSend(specEncode(&specPkt{Typ: specSUBACK, ID: req[0].ID, Codes: []byte{0}}))
	c.peerSend(specEncode(&specPkt{Typ: specPUBLISH, Topic: []byte("t"), Payload: []byte("m")}))
	vrtQuiesce()
	vrtAssert("C20.subscribe_completes", completed == 1)
	vrtAssert("C20.callback_once_per_matching_message", calls == 1)
	cln.Disconnect()
	vrtQuiesce()
	vrtReach("C20.connack_with_more_behind")
}
