//go:build verif

package service

import "github.com/mdzio/go-mqtt/topics"

// C07: SUBSCRIBE / UNSUBSCRIBE are always acknowledged and take effect at the ack.

func vrtGranted(f []byte, q, max byte) byte {
	ok := vrtAnd(vrtAnd(specFilterValid(f), f[0] != '$'), q <= 2)
	return vrtIteByte(ok, specMinQos(q, max), 0x80)
}

// vrtSubackOrClosed: ans is exactly one SUBACK(id, codes...) - or nothing and the connection was closed.
func vrtSubackOrClosed(c *vrtConn, ans []byte, id uint16, codes []byte) bool {
	if len(ans) == 0 {
		return c.isClosed()
	}
	want := specEncode(&specPkt{Typ: specSUBACK, ID: id, Codes: codes})
	return vrtBytesEq(ans, want)
}

func H07_subscribe() {
	V := vrtBound("N07levels", 2)
	K := vrtBound("N07filters", 2)
	max := vrtByte("maxqos")
	vrtAssume(max <= 2)
	topics.MaxQosAllowed = 2
	b := vrtBroker("mockSuccess")
	topics.MaxQosAllowed = max // (changed after the provider exists: the current value counts, not the one at construction)
	a, _ := b.connect(vrtConnectPkt([]byte("a"), true))
	w, _ := b.connect(vrtConnectPkt([]byte("w"), true))
	id := vrtUint16("id")
	vrtAssume(id != 0)
	sub := &specPkt{Typ: specSUBSCRIBE, ID: id}
	k := vrtChoice("nfilters", K) + 1
	var codes []byte
	for i := 0; i < k; i++ {
		f := vrtLevelName("F", V, true)
		q := vrtByte("q")
		sub.Topics = append(sub.Topics, f)
		sub.QoS = append(sub.QoS, q)
		codes = append(codes, vrtGranted(f, q, max))
	}
	ans := vrtExchange(a, sub)
	vrtAssert("C07.suback_or_close", vrtSubackOrClosed(a, ans, id, codes))
	vrtObserve("suback", ans)
	if a.isClosed() {
		vrtReach("C07.closed_instead")
		return
	}
	vrtReach("C07.suback")
	// effect: a publish accepted after the SUBACK is delivered iff an accepted filter matches
	T := vrtLevelName("T", V, false)
	payload := []byte{vrtByte("payload")}
	vrtExchange(w, &specPkt{Typ: specPUBLISH, Topic: T, Payload: payload})
	got, ok := vrtParse(a.peerTake())
	vrtAssert("C07.stream_wellformed", ok)
	// expected number of copies = number of distinct accepted filters that match
	want := 0
	for i := 0; i < k; i++ {
		dup := false
		for j := i + 1; j < k; j++ {
			if vrtBytesEq(sub.Topics[i], sub.Topics[j]) && vrtConcretize(vrtIteInt(codes[j] != 0x80, 1, 0)) == 1 {
				dup = true // a later identical (accepted) filter replaces this one
			}
		}
		if dup {
			continue
		}
		m := vrtAnd(codes[i] != 0x80, specMatch(sub.Topics[i], T))
		if vrtConcretize(vrtIteInt(m, 1, 0)) == 1 {
			want++
		}
	}
	vrtAssert("C07.delivered_iff_subscribed", len(got) == want)
	for _, p := range got {
		vrtAssert("C07.delivered_is_the_publish", vrtAnd(p.Typ == specPUBLISH, vrtAnd(vrtBytesEq(p.Topic, T), vrtBytesEq(p.Payload, payload))))
	}
	vrtObserve("delivered", len(got))
}

func H07_unsubscribe() {
	V := vrtBound("N07levels", 2)
	K := vrtBound("N07ufilters", 2)
	b := vrtBroker("mockSuccess")
	a, _ := b.connect(vrtConnectPkt([]byte("a"), true))
	w, _ := b.connect(vrtConnectPkt([]byte("w"), true))
	// two subscriptions
	F := [2][]byte{vrtLevelName("F0", V, true), vrtLevelName("F1", V, true)}
	vrtAssume(vrtAnd(specFilterValid(F[0]), specFilterValid(F[1])))
	vrtAssume(vrtNot(vrtBytesEq(F[0], F[1])))
	ans := vrtExchange(a, &specPkt{Typ: specSUBSCRIBE, ID: 1, Topics: [][]byte{F[0], F[1]}, QoS: []byte{0, 0}})
	vrtAssert("C07.harness_suback", vrtBytesEq(ans, []byte{0x90, 4, 0, 1, 0, 0}))
	// UNSUBSCRIBE: a choice of the two subscribed filters and an unrelated one
	id := vrtUint16("id")
	vrtAssume(id != 0)
	un := &specPkt{Typ: specUNSUBSCRIBE, ID: id}
	removed := [2]bool{}
	k := vrtChoice("nfilters", K) + 1
	for i := 0; i < k; i++ {
		switch vrtChoice("which", 3) {
		case 0:
			un.Topics = append(un.Topics, F[0])
			removed[0] = true
		case 1:
			un.Topics = append(un.Topics, F[1])
			removed[1] = true
		default:
			un.Topics = append(un.Topics, []byte("never/subscribed"))
		}
	}
	ans = vrtExchange(a, un)
	want := specEncode(&specPkt{Typ: specUNSUBACK, ID: id})
	vrtAssert("C07.unsuback_or_close", vrtOr(vrtBytesEq(ans, want), vrtAnd(len(ans) == 0, a.isClosed())))
	if a.isClosed() {
		return
	}
	vrtReach("C07.unsuback")
	T := vrtLevelName("T", V, false)
	vrtExchange(w, &specPkt{Typ: specPUBLISH, Topic: T, Payload: []byte("x")})
	got, ok := vrtParse(a.peerTake())
	vrtAssert("C07.stream_wellformed", ok)
	wantN := 0
	for i := 0; i < 2; i++ {
		if !removed[i] && vrtConcretize(vrtIteInt(specMatch(F[i], T), 1, 0)) == 1 {
			wantN++
		}
	}
	vrtAssert("C07.no_delivery_after_unsuback", len(got) == wantN)
	vrtObserve("after_unsub", len(got))
}

// H07_ack_order: the subscription changes take effect before the acknowledgement
// is sent. A hook on the topic store runs at the moment the broker changes the
// subscription: nothing of the acknowledgement may be on the wire yet, and a
// publish accepted at that very moment (still subscribed) must reach the
// client in front of the UNSUBACK, never behind it.
func H07_ack_order() {
	b := vrtBroker("mockSuccess")
	a, _ := b.connect(vrtConnectPkt([]byte("a"), true))
	w, _ := b.connect(vrtConnectPkt([]byte("w"), true))
	var early []byte
	vrtTopicsHook.onSubscribe = func(f []byte) {
		vrtQuiesce() // let the sender drain whatever was queued so far
		early = append(early, a.peerTake()...)
	}
	q := vrtByte("q")
	vrtAssume(q <= 2)
	ans := vrtExchange(a, &specPkt{Typ: specSUBSCRIBE, ID: 5, Topics: [][]byte{[]byte("t"), []byte("u")}, QoS: []byte{q, 0}})
	vrtAssert("C07.no_suback_before_subscribed", len(early) == 0)
	vrtAssert("C07.harness_suback", vrtBytesEq(ans, []byte{0x90, 4, 0, 5, q, 0}))
	vrtTopicsHook.onSubscribe = nil
	raced := false
	vrtTopicsHook.onUnsubscribe = func(f []byte) {
		if raced {
			return
		}
		raced = true
		vrtExchange(w, &specPkt{Typ: specPUBLISH, Topic: []byte("t"), Payload: []byte("racing")})
	}
	ans = vrtExchange(a, &specPkt{Typ: specUNSUBSCRIBE, ID: 6, Topics: [][]byte{[]byte("t")}})
	pk, ok := vrtParse(ans)
	vrtAssert("C07.stream_wellformed", ok)
	vrtAssert("C07.unsuback_sent_once", vrtAnd(len(pk) >= 1, pk[len(pk)-1].Typ == specUNSUBACK))
	for i := range pk {
		if pk[i].Typ == specUNSUBACK {
			vrtAssert("C07.nothing_delivered_after_unsuback", i == len(pk)-1)
		}
	}
	vrtObserve("order", ans)
	vrtReach("C07.ack_order")
}

// H07many_filters: requests with a large number of filters (the property's
// "N well above 4"), around the sizes at which the SUBACK's / UNSUBACK's and
// the request's remaining-length fields grow to two bytes: one return code
// per filter in request order, and every filter takes effect.
func H07many_filters() {
	topics.MaxQosAllowed = 2
	b := vrtBroker("mockSuccess")
	a, _ := b.connect(vrtConnectPkt([]byte("a"), true))
	w, _ := b.connect(vrtConnectPkt([]byte("w"), true))
	ns := []int{21, 24, 25, 26, 125, 126, 127, 128, 200} // (21 filters: the SUBSCRIBE has a remaining length of exactly 128)
	n := ns[vrtChoice("nfilters", len(ns))]
	sub := &specPkt{Typ: specSUBSCRIBE, ID: 7}
	unsub := &specPkt{Typ: specUNSUBSCRIBE, ID: 8}
	var codes []byte
	for i := 0; i < n; i++ {
		f := []byte{'f', byte('0' + i/64), byte('0' + i%64)}
		sub.Topics = append(sub.Topics, f)
		sub.QoS = append(sub.QoS, byte(i%3))
		codes = append(codes, byte(i%3))
		unsub.Topics = append(unsub.Topics, f)
	}
	ans := vrtExchange(a, sub)
	vrtAssert("C07.suback_many", vrtBytesEq(ans, specEncode(&specPkt{Typ: specSUBACK, ID: 7, Codes: codes})))
	vrtAssert("C07.connection_stays_open", !a.isClosed())
	pick := vrtChoice("which", 3)
	idx := []int{0, n / 2, n - 1}[pick]
	vrtExchange(w, &specPkt{Typ: specPUBLISH, Topic: sub.Topics[idx], Payload: []byte("m")})
	got, ok := vrtParse(a.peerTake())
	vrtAssert("C07.stream_wellformed", ok)
	vrtAssert("C07.subscribed_after_suback", len(got) == 1)
	ans = vrtExchange(a, unsub)
	vrtAssert("C07.unsuback_many", vrtBytesEq(ans, specEncode(&specPkt{Typ: specUNSUBACK, ID: 8})))
	vrtExchange(w, &specPkt{Typ: specPUBLISH, Topic: sub.Topics[idx], Payload: []byte("m")})
	vrtAssert("C07.unsubscribed_after_unsuback", len(a.peerTake()) == 0)
	vrtObserve("many", n)
	vrtReach("C07.many_filters")
}

// H07_other_client_leaves: a subscription stays in effect until ITS client
// unsubscribes or leaves - not when another client that holds the very same
// filter does.
func H07_other_client_leaves() {
	topics.MaxQosAllowed = 2
	b := vrtBroker("mockSuccess")
	a, _ := b.connect(vrtConnectPkt([]byte("a"), true))
	o, _ := b.connect(vrtConnectPkt([]byte("o"), vrtBool("other_clean")))
	p, _ := b.connect(vrtConnectPkt([]byte("p"), true))
	filters := [][]byte{[]byte("t"), []byte("t/+"), []byte("#")}
	F := filters[vrtChoice("filter", len(filters))]
	topic := []byte("t/x")
	if len(F) == 1 && F[0] == 't' {
		topic = []byte("t")
	}
	qa, qo := vrtByte("qa"), vrtByte("qo")
	vrtAssume(vrtAnd(qa <= 2, qo <= 2))
	if vrtBool("other_subscribes_first") {
		vrtExchange(o, &specPkt{Typ: specSUBSCRIBE, ID: 1, Topics: [][]byte{F}, QoS: []byte{qo}})
		vrtExchange(a, &specPkt{Typ: specSUBSCRIBE, ID: 1, Topics: [][]byte{F}, QoS: []byte{qa}})
	} else {
		vrtExchange(a, &specPkt{Typ: specSUBSCRIBE, ID: 1, Topics: [][]byte{F}, QoS: []byte{qa}})
		vrtExchange(o, &specPkt{Typ: specSUBSCRIBE, ID: 1, Topics: [][]byte{F}, QoS: []byte{qo}})
	}
	a.peerTake()
	switch vrtChoice("other_leaves_by", 3) {
	case 0:
		vrtExchange(o, &specPkt{Typ: specDISCONNECT})
		o.peerClose()
	case 1:
		o.peerClose()
	case 2:
		o.peerTake()
		ans := vrtExchange(o, &specPkt{Typ: specUNSUBSCRIBE, ID: 2, Topics: [][]byte{F}})
		vrtAssert("C07.unsuback", vrtBytesEq(ans, []byte{0xB0, 2, 0, 2}))
	}
	vrtQuiesce()
	vrtExchange(p, &specPkt{Typ: specPUBLISH, Flags: 2, ID: 5, Topic: topic, Payload: []byte("m")})
	got, ok := vrtParse(a.peerTake())
	vrtAssert("C07.stream_wellformed", ok)
	vrtAssert("C07.subscription_survives_other_clients_leaving", len(got) == 1)
	if len(got) == 1 {
		vrtAssert("C07.surviving_subscription_qos", (got[0].Flags>>1)&3 == specMinQos(1, qa))
	}
	if !o.isClosed() {
		vrtAssert("C07.no_delivery_after_unsuback", len(o.peerTake()) == 0)
	}
	vrtReach("C07.other_client_left")
}

// H07_resubscribe: a second SUBSCRIBE for a filter the client already holds
// replaces the granted QoS: the SUBACK reports it and deliveries follow it.
func H07_resubscribe() {
	topics.MaxQosAllowed = 2
	b := vrtBroker("mockSuccess")
	a, _ := b.connect(vrtConnectPkt([]byte("a"), true))
	p, _ := b.connect(vrtConnectPkt([]byte("p"), true))
	filters := [][]byte{[]byte("t"), []byte("t/+"), []byte("#")}
	F := filters[vrtChoice("filter", len(filters))]
	topic := []byte("t/x")
	if len(F) == 1 && F[0] == 't' {
		topic = []byte("t")
	}
	q1, q2 := vrtByte("q1"), vrtByte("q2")
	vrtAssume(vrtAnd(q1 <= 2, q2 <= 2))
	ans := vrtExchange(a, &specPkt{Typ: specSUBSCRIBE, ID: 1, Topics: [][]byte{F}, QoS: []byte{q1}})
	vrtAssert("C07.suback_or_close", vrtBytesEq(ans, []byte{0x90, 3, 0, 1, q1}))
	ans = vrtExchange(a, &specPkt{Typ: specSUBSCRIBE, ID: 2, Topics: [][]byte{F}, QoS: []byte{q2}})
	vrtAssert("C07.suback_or_close", vrtBytesEq(ans, []byte{0x90, 3, 0, 2, q2}))
	vrtExchange(p, &specPkt{Typ: specPUBLISH, Flags: 4, ID: 5, Topic: topic, Payload: []byte("m")})
	vrtExchange(p, &specPkt{Typ: specPUBREL, ID: 5})
	got, ok := vrtParse(a.peerTake())
	vrtAssert("C07.stream_wellformed", ok)
	vrtAssert("C07.resubscribed_once", len(got) == 1)
	if len(got) == 1 {
		vrtAssert("C07.resubscribe_takes_effect", (got[0].Flags>>1)&3 == q2)
	}
	vrtReach("C07.resubscribed")
}

// H07j_acknowledged_then_jammed: a persistent client subscribes to a filter that matches more retained data
// than its outgoing ring and the pipe hold (six messages of 6000 bytes, ring 16384), reads the SUBACK and nothing
// more - the retained delivery that follows the SUBACK jams - and then drops the connection. The
// subscription was acknowledged, so it is part of the session: the next connection of that client
// (CleanSession=0) is answered SessionPresent=1 and receives a live publish on the filter without
// subscribing again (round-9 changes C07-17 / C10-18: the session was only told about the filters at the
// very end of the request, behind the retained loop, which returns early when a write fails).
func H07j_acknowledged_then_jammed() {
	topics.MaxQosAllowed = 2
	b := vrtBroker("mockSuccess")
	p, _ := b.connect(vrtConnectPkt([]byte("p"), true))
	for i := 0; i < 6; i++ { // (the pipe takes one more sender block after the SUBACK: 36000 bytes are well above ring + block)
		pk := vrtPublishOfLen("r/"+string(rune('1'+i)), 6000, byte('a'+i))
		pk.Flags |= 1
		vrtExchange(p, pk)
	}
	c, ack := b.connect(vrtConnectPkt([]byte("x"), false))
	vrtAssert("C07.harness_connack", vrtIsConnack(ack, false, 0))
	c.peerStall(5 + 100) // the SUBACK and a little more is all the client still takes
	gq := byte(vrtChoice("granted", 2))
	c.peerSend(specEncode(&specPkt{Typ: specSUBSCRIBE, ID: 7, Topics: [][]byte{[]byte("r/+")}, QoS: []byte{gq}}))
	vrtQuiesce()
	c.mu.Lock()
	seen := append([]byte(nil), c.out...)
	c.mu.Unlock()
	vrtAssert("C07.suback_or_close", len(seen) >= 5 && vrtBytesEq(seen[:5], []byte{0x90, 3, 0, 7, gq}))
	vrtEnd(c, 1+vrtChoice("end", 1)) // dropped
	vrtQuiesce()
	vrtAssert("C07.harness_old_connection_gone", c.isClosed())
	c2, ack2 := b.connect(vrtConnectPkt([]byte("x"), false))
	vrtAssert("C10.session_present_flag", vrtIsConnack(ack2, true, 0))
	vrtExchange(c2, &specPkt{Typ: specPINGREQ})
	c2.peerTake()
	vrtExchange(p, &specPkt{Typ: specPUBLISH, Topic: []byte("r/live"), Payload: []byte("m")})
	got, ok := vrtParse(c2.peerTake())
	vrtAssert("C07.stream_wellformed", ok)
	vrtAssert("C07.acknowledged_subscription_is_in_the_session", len(got) == 1 && got[0].Typ == specPUBLISH && vrtBytesEq(got[0].Topic, []byte("r/live")))
	vrtReach("C07.acknowledged_then_jammed")
}
