//go:build verif

package service

import (
	"errors"
	"io"
	"net"
	"sync"
	"time"
)

// vrtConn: an in-memory net.Conn between the library (one end) and the harness
// (the raw peer). Plain Go: interpreted by the engine like any other code, and
// compiled natively for replays. Contract: Read blocks until data / close /
// peer close / a deadline the harness declares expired; Write never
// short-writes; Close unblocks Read.

type vrtAddr struct{}

func (vrtAddr) Network() string { return "vrt" }
func (vrtAddr) String() string  { return "vrt" }

type vrtNetTimeout struct{}

func (vrtNetTimeout) Error() string   { return "i/o timeout" }
func (vrtNetTimeout) Timeout() bool   { return true }
func (vrtNetTimeout) Temporary() bool { return true }

var vrtErrClosed = errors.New("use of closed network connection")

type vrtConn struct {
	mu         sync.Mutex
	cond       *sync.Cond
	in         []byte // peer -> library, not yet read
	out        []byte // library -> peer, not yet collected by the harness
	closed     bool   // closed by the library
	peerClosed bool   // the peer closed (EOF after the pending bytes)
	timedOut   bool   // the harness declares the armed read deadline expired
	deadline   time.Time
	armedAt    int64 // harness clock when the deadline was last armed
	arms       int   // number of SetReadDeadline calls
	readsSinceArm int
	writesAfterClose int
	wcap       int // > 0: the peer has stopped reading - Write blocks once wcap bytes are pending
	hold       bool // the peer's receive window is closed altogether: every Write waits
	maxBlocked int  // the largest number of goroutines that were blocked in Write at the same time
	wseq       int
	wblocked   []int // tickets of the goroutines blocked in Write
	eofWithLast bool // the last bytes and the end of the stream are delivered by one Read (n > 0, io.EOF), as crypto/tls does
	failWrites  bool // the write side of the connection is broken, the read side still delivers
	halfClosed  bool // the peer has shut down its SENDING side only (end of stream after the pending bytes); what the library writes is still taken - or not, if the peer has also stopped reading: then writes block, they do not fail
}

func vrtNewConn() *vrtConn {
	c := &vrtConn{}
	c.cond = sync.NewCond(&c.mu)
	return c
}

func (c *vrtConn) Read(b []byte) (int, error) {
	vrtTouch()
	c.mu.Lock()
	defer c.mu.Unlock()
	c.readsSinceArm++
	for len(c.in) == 0 && !c.closed && !c.peerClosed && !c.halfClosed && !c.timedOut {
		c.cond.Wait()
	}
	vrtTouch()
	if c.closed {
		return 0, vrtErrClosed
	}
	if len(c.in) > 0 {
		n := copy(b, c.in)
		c.in = c.in[n:]
		if c.eofWithLast && c.peerClosed && len(c.in) == 0 {
			return n, io.EOF
		}
		return n, nil
	}
	if c.timedOut {
		c.timedOut = false
		return 0, vrtNetTimeout{}
	}
	return 0, io.EOF
}

func (c *vrtConn) Write(b []byte) (int, error) {
	vrtTouch()
	c.mu.Lock()
	defer c.mu.Unlock()
	if (c.hold || (c.wcap > 0 && len(c.out) >= c.wcap)) && !c.closed && !c.peerClosed {
		// the peer's receive window is full. If several goroutines are blocked in Write when it opens again,
		// the one that came LAST is served first (the order is unspecified for a socket; the library's design
		// has a single writer per connection, for which this makes no difference)
		c.wseq++
		my := c.wseq
		c.wblocked = append(c.wblocked, my)
		if len(c.wblocked) > c.maxBlocked {
			c.maxBlocked = len(c.wblocked)
		}
		for !c.closed && !c.peerClosed && (c.hold || (c.wcap > 0 && len(c.out) >= c.wcap) || c.wblocked[len(c.wblocked)-1] != my) {
			c.cond.Wait()
		}
		for i, t := range c.wblocked {
			if t == my {
				c.wblocked = append(c.wblocked[:i], c.wblocked[i+1:]...)
				break
			}
		}
		c.cond.Broadcast()
	}
	if c.closed {
		c.writesAfterClose++
		return 0, vrtErrClosed
	}
	if c.failWrites {
		return 0, vrtErrClosed
	}
	if c.peerClosed && c.wcap > 0 {
		return 0, vrtErrClosed // connection reset by the peer
	}
	c.out = append(c.out, b...)
	return len(b), nil
}

func (c *vrtConn) Close() error {
	vrtTouch()
	c.mu.Lock()
	defer c.mu.Unlock()
	c.closed = true
	c.cond.Broadcast()
	return nil
}

func (c *vrtConn) LocalAddr() net.Addr                { return vrtAddr{} }
func (c *vrtConn) RemoteAddr() net.Addr               { return vrtAddr{} }
func (c *vrtConn) SetDeadline(t time.Time) error      { return c.SetReadDeadline(t) }
func (c *vrtConn) SetWriteDeadline(t time.Time) error { return nil }

func (c *vrtConn) SetReadDeadline(t time.Time) error {
	c.mu.Lock()
	defer c.mu.Unlock()
	c.deadline = t
	c.armedAt = vrtClock()
	c.arms++
	c.readsSinceArm = 0
	return nil
}

// ---- the harness (peer) side

func (c *vrtConn) peerSend(b []byte) {
	vrtTouch()
	c.mu.Lock()
	c.in = append(c.in, b...)
	c.cond.Broadcast()
	c.mu.Unlock()
}

func (c *vrtConn) peerClose() {
	vrtTouch()
	c.mu.Lock()
	c.peerClosed = true
	c.cond.Broadcast()
	c.mu.Unlock()
}

// peerHalfClose: the peer shuts down its sending side (TCP FIN) and keeps - or has stopped - reading.
func (c *vrtConn) peerHalfClose() {
	vrtTouch()
	c.mu.Lock()
	c.halfClosed = true
	c.cond.Broadcast()
	c.mu.Unlock()
}

func (c *vrtConn) peerExpireDeadline() {
	vrtTouch()
	c.mu.Lock()
	c.timedOut = true
	c.cond.Broadcast()
	c.mu.Unlock()
}

// peerTake returns what the library wrote since the last call.
func (c *vrtConn) peerTake() []byte {
	c.mu.Lock()
	defer c.mu.Unlock()
	b := c.out
	c.out = nil
	c.cond.Broadcast()
	return b
}

// peerStall: the peer stops reading; at most n more bytes are accepted.
func (c *vrtConn) peerStall(n int) {
	c.mu.Lock()
	c.wcap = n
	c.cond.Broadcast() // (n == 0: the peer reads again)
	c.mu.Unlock()
}

// peerHold: the peer accepts nothing (true) / reads again (false).
func (c *vrtConn) peerHold(h bool) {
	c.mu.Lock()
	c.hold = h
	c.cond.Broadcast()
	c.mu.Unlock()
}

func (c *vrtConn) blockedWriters() int {
	c.mu.Lock()
	defer c.mu.Unlock()
	return c.maxBlocked
}

func (c *vrtConn) isClosed() bool {
	c.mu.Lock()
	defer c.mu.Unlock()
	return c.closed
}

var _ net.Conn = (*vrtConn)(nil)

// vrtSetDialConn: the next net.Dial of the library reaches this pipe (engine:
// intercepted; native: loopback listener + proxy, see the runtime).
func vrtSetDialConn(c *vrtConn) { vrtSetDialConnEnd(c) }
