//go:build verif

package service

import (
	"sync"

	"github.com/mdzio/go-mqtt/message"
	"github.com/mdzio/go-mqtt/sessions"
)

// C17: outgoing streams are whole packets; each publisher's messages stay in order.

// vrtGate: an in-process subscriber whose callback blocks until the harness opens the gate.
type vrtGate struct {
	mu   sync.Mutex
	cond *sync.Cond
	open bool
	got  [][]byte
	fn   OnPublishFunc
}

func vrtNewGate() *vrtGate {
	g := &vrtGate{}
	g.cond = sync.NewCond(&g.mu)
	g.fn = func(m *message.PublishMessage) error {
		g.mu.Lock()
		for !g.open {
			g.cond.Wait()
		}
		g.mu.Unlock()
		// the message is read only now, after the fan-out was held up
		g.got = append(g.got, append(append([]byte(nil), m.Topic()...), m.Payload()...))
		return nil
	}
	return g
}

func (g *vrtGate) release() {
	g.mu.Lock()
	g.open = true
	g.cond.Broadcast()
	g.mu.Unlock()
}

// H17_backpressure: one publisher pipelines large messages (more than the input
// ring holds) while the fan-out of the first one is held up; afterwards the
// subscriber must have every message intact and in order.
func H17_backpressure() {
	n := vrtBound("N17msgs", 3)
	size := vrtBound("N17size", 8400)
	b := vrtBroker("mockSuccess")
	g := vrtNewGate()
	vrtAssert("C17.harness_subscribe", b.svr.Subscribe("t", 0, &g.fn) == nil)
	p, _ := b.connect(vrtConnectPkt([]byte("p"), true))
	var want [][]byte
	for i := 0; i < n; i++ {
		payload := make([]byte, size)
		for j := range payload {
			payload[j] = byte(i*31 + j)
		}
		payload[0] = vrtByte("first")
		want = append(want, append([]byte("t"), payload...))
		p.peerSend(specEncode(&specPkt{Typ: specPUBLISH, Topic: []byte("t"), Payload: payload}))
	}
	vrtQuiesce() // the processor is stuck in the first delivery, the receiver reads on
	g.release()
	vrtQuiesce()
	vrtAssert("C17.all_delivered", len(g.got) == n)
	for i := 0; i < len(g.got) && i < n; i++ {
		vrtAssert("C17.delivered_intact_in_order", vrtBytesEq(g.got[i], want[i]))
	}
	vrtReach("C17.backpressure")
}

// H17_two_writers: two goroutines deliver a packet each to the same connection
// whose outgoing ring is about to wrap; every interleaving within the
// preemption bound; what the sender would put on the wire must be exactly the
// two packets, whole, in either order.
func H17_two_writers() {
	// producer/consumer cursors k bytes before the wrap point
	vrtTwoWriters(int64(vrtChoice("before_wrap", vrtBound("N17wrap", 14))), 0)
}

// H17_two_large_writers: the same with packets of more than 5000 bytes (three symbolic bytes in front of a
// fixed filler), the ring about to wrap inside the first or the second packet or not at all (round-8
// change C18-16: packets above 4096 bytes were encoded into the connection's scratch buffer BEFORE the
// write mutex was taken).
func H17_two_large_writers() {
	vrtTwoWriters([]int64{0, 3, 5005, 7000, 12000}[vrtChoice("before_wrap", 5)], 5000)
}

func vrtTwoWriters(k int64, filler int) {
	bf, err := newBuffer(1)
	if err != nil {
		panic(err)
	}
	c := 2*bf.size - k
	bf.cseq.set(c)
	bf.pseq.set(c)
	bf.pseq.gate = c
	svc := &service{out: bf}
	mk := func(topic byte, name string) (*message.PublishMessage, []byte) {
		m := message.NewPublishMessage()
		payload := []byte{vrtByte(name + ".p0"), vrtByte(name + ".p1"), vrtByte(name + ".p2")}
		for i := 0; i < filler; i++ {
			payload = append(payload, topic+byte(i%7))
		}
		m.SetTopic([]byte{topic})
		m.SetPayload(payload)
		return m, specEncode(&specPkt{Typ: specPUBLISH, Topic: []byte{topic}, Payload: payload})
	}
	m1, w1 := mk('a', "m1")
	m2, w2 := mk('b', "m2")
	var e1, e2 error
	vrtGo(func() { _, e1 = svc.writeMessage(m1) })
	vrtGo(func() { _, e2 = svc.writeMessage(m2) })
	vrtJoin()
	vrtAssert("C17.writes_ok", vrtAnd(e1 == nil, e2 == nil))
	total := len(w1) + len(w2)
	vrtAssert("C17.ring_holds_both", bf.Len() == total)
	if bf.Len() != total {
		return
	}
	// drain what the sender goroutine would write to the socket
	var wire []byte
	for len(wire) < total {
		p, perr := bf.ReadPeek(total - len(wire))
		if perr != nil && perr != ErrBufferInsufficientData {
			vrtAssert("C17.drain_ok", false)
			return
		}
		wire = append(wire, p...)
		bf.ReadCommit(len(p))
	}
	ab := append(append([]byte(nil), w1...), w2...)
	ba := append(append([]byte(nil), w2...), w1...)
	vrtAssert("C17.whole_packets_in_some_order", vrtOr(vrtBytesEq(wire, ab), vrtBytesEq(wire, ba)))
	vrtReach("C17.two_writers")
}

// H17_order: one publisher pipelines messages on one topic; every subscriber gets them in order.
func H17_order() {
	b := vrtBroker("mockSuccess")
	s1, _ := b.connect(vrtConnectPkt([]byte("s1"), true))
	s2, _ := b.connect(vrtConnectPkt([]byte("s2"), true))
	q1, q2 := vrtByte("q1"), vrtByte("q2")
	vrtAssume(vrtAnd(q1 <= 2, q2 <= 2))
	vrtExchange(s1, &specPkt{Typ: specSUBSCRIBE, ID: 1, Topics: [][]byte{[]byte("t")}, QoS: []byte{q1}})
	vrtExchange(s2, &specPkt{Typ: specSUBSCRIBE, ID: 1, Topics: [][]byte{[]byte("+")}, QoS: []byte{q2}})
	s1.peerTake()
	s2.peerTake()
	p, _ := b.connect(vrtConnectPkt([]byte("p"), true))
	q := vrtByte("q")
	vrtAssume(q <= 1)
	n := vrtBound("N17order", 4)
	for i := 0; i < n; i++ {
		pk := &specPkt{Typ: specPUBLISH, Flags: q << 1, Topic: []byte("t"), Payload: []byte{byte('0' + i), vrtByte("x")}}
		if q > 0 {
			// the publisher re-uses its identifiers (the broker acknowledges at once) and may set DUP; the
			// subscribers never acknowledge, so the forwarded copies stay in flight towards them
			pk.ID = uint16(10 + i%2)
			pk.Flags |= vrtB2b(vrtBool("dup"), 8)
		}
		p.peerSend(specEncode(pk)) // pipelined: no waiting in between
	}
	vrtQuiesce()
	for _, s := range []*vrtConn{s1, s2} {
		got, ok := vrtParse(s.peerTake())
		vrtAssert("C17.stream_is_whole_packets", ok)
		vrtAssert("C17.all_arrive", len(got) == n)
		for i := 0; i < len(got) && i < n; i++ {
			vrtAssert("C17.in_publishing_order", vrtAnd(got[i].Typ == specPUBLISH, vrtAnd(len(got[i].Payload) == 2, got[i].Payload[0] == byte('0'+i))))
		}
	}
	vrtReach("C17.order")
}

// H17_qos2_window: one publisher's QoS 2 messages on one topic stay in order even
// when more of them are in flight than the incoming queue holds (the queue
// grows while its ring is rotated).
func H17_qos2_window() {
	done := vrtBound("N17done", 5)
	window := vrtBound("N17window", 18)
	b := vrtBroker("mockSuccess")
	s, _ := b.connect(vrtConnectPkt([]byte("s"), true))
	vrtExchange(s, &specPkt{Typ: specSUBSCRIBE, ID: 1, Topics: [][]byte{[]byte("t")}, QoS: []byte{0}})
	s.peerTake()
	p, _ := b.connect(vrtConnectPkt([]byte("p"), true))
	next := 1
	var want []byte
	for i := 0; i < done; i++ {
		id := uint16(next)
		vrtExchange(p, &specPkt{Typ: specPUBLISH, Flags: 4, ID: id, Topic: []byte("t"), Payload: []byte{byte(next)}})
		vrtExchange(p, &specPkt{Typ: specPUBREL, ID: id})
		want = append(want, byte(next))
		next++
	}
	first := next
	for i := 0; i < window; i++ {
		p.peerSend(specEncode(&specPkt{Typ: specPUBLISH, Flags: 4, ID: uint16(next), Topic: []byte("t"), Payload: []byte{byte(next)}}))
		want = append(want, byte(next))
		next++
	}
	vrtQuiesce()
	for id := first; id < next; id++ {
		p.peerSend(specEncode(&specPkt{Typ: specPUBREL, ID: uint16(id)}))
	}
	vrtQuiesce()
	acks, ok := vrtParse(p.peerTake())
	vrtAssert("C17.publisher_stream_wellformed", ok)
	vrtAssert("C17.every_packet_acknowledged", len(acks) == 2*window)
	got, ok2 := vrtParse(s.peerTake())
	vrtAssert("C17.stream_is_whole_packets", ok2)
	vrtAssert("C17.all_arrive", len(got) == len(want))
	for i := 0; i < len(got) && i < len(want); i++ {
		vrtAssert("C17.in_publishing_order", vrtAnd(len(got[i].Payload) == 1, got[i].Payload[0] == want[i]))
	}
	vrtReach("C17.qos2_window")
}

// H17_peeksize: the framing step between the receive ring and the decoders:
// for ANY five header bytes (every remaining-length encoding, every boundary
// value 127/128, 16383/16384, ...) at three ring positions (two of them
// straddling the end of the ring), peekMessageSize returns the packet type
// and the total packet size the fixed header announces; a continuation bit in
// the fourth length byte is an error.
func H17_peeksize() {
	svc := &service{}
	var err error
	svc.in, err = newBuffer(1)
	if err != nil {
		panic(err)
	}
	c := []int64{0, svc.in.size - 1, 2*svc.in.size - 3}[vrtChoice("pos", 3)]
	svc.in.cseq.set(c)
	svc.in.pseq.set(c)
	svc.in.pseq.gate = c
	h := vrtBytesN("h", 5)
	hh := append([]byte(nil), h...)
	n, werr := svc.in.Write(hh)
	vrtAssert("C17.harness_header_written", n == 5 && werr == nil)
	mtype, total, perr := svc.peekMessageSize()
	typ, _, remlen, hdr, ok := specFrame(hh)
	if ok {
		vrtAssert("C17.peeksize_ok", perr == nil)
		vrtAssert("C17.peeksize_type", byte(mtype) == typ)
		vrtAssert("C17.peeksize_total", total == remlen+hdr)
		vrtReach("C17.peeksize")
	} else if vrtAnd(vrtAnd(hh[1] >= 0x80, hh[2] >= 0x80), vrtAnd(hh[3] >= 0x80, hh[4] >= 0x80)) {
		vrtAssert("C17.peeksize_overlong_rejected", perr != nil)
	}
	vrtAssert("C17.peeksize_consumes_nothing", svc.in.cseq.get() == c)
	vrtObserve("peek", total, perr != nil)
}

// H17_wrap_sequence: a sequence of packets of different sizes written by one
// goroutine, each of them straddling the end of the outgoing ring (the ring is
// re-positioned before each write, as laps of other traffic would): large,
// small, medium - in every order the solver picks. What the sender would put on
// the wire is exactly the packets, nothing behind or between them.
func H17_wrap_sequence() {
	bf, err := newBuffer(1)
	if err != nil {
		panic(err)
	}
	svc := &service{out: bf}
	sizes := [3]int{vrtChoice("len0", 3), vrtChoice("len1", 3), vrtChoice("len2", 3)} // payload length classes: 1, 9, 40
	lens := []int{1, 9, 40}
	lap := int64(1)
	for i := 0; i < 3; i++ {
		n := lens[sizes[i]]
		payload := make([]byte, n)
		for j := range payload {
			payload[j] = byte(16*i + j)
		}
		payload[0] = vrtByte("p")
		m := message.NewPublishMessage()
		m.SetTopic([]byte("t"))
		m.SetPayload(payload)
		q := byte(vrtChoice("qos", 2))
		m.SetQoS(q)
		exp := &specPkt{Typ: specPUBLISH, Flags: q << 1, Topic: []byte("t"), Payload: payload}
		if q > 0 {
			m.SetPacketID(uint16(7 + i))
			exp.ID = uint16(7 + i)
		}
		want := specEncode(exp)
		// k bytes of the packet before the end of the ring, the rest after it
		k := int64(1 + vrtChoice("before_wrap", 3))
		c := lap*bf.size - k
		lap += 2
		bf.cseq.set(c)
		bf.pseq.set(c)
		bf.pseq.gate = c
		wn, werr := svc.writeMessage(m)
		vrtAssert("C17.writes_ok", werr == nil && wn == len(want))
		vrtAssert("C17.ring_holds_exactly_the_packet", bf.Len() == len(want))
		var wire []byte
		for len(wire) < bf.Len()+len(wire) && bf.Len() > 0 {
			p, perr := bf.ReadPeek(bf.Len())
			if perr != nil && perr != ErrBufferInsufficientData {
				vrtAssert("C17.drain_ok", false)
				return
			}
			wire = append(wire, p...)
			bf.ReadCommit(len(p))
		}
		vrtAssert("C17.wrapped_packet_on_the_wire", vrtBytesEq(wire, want))
	}
	vrtReach("C17.wrap_sequence")
}

// H17b_two_publishers: two goroutines deliver a QoS 1 message each to the same
// connection through the full sending path (publish: registration for the
// acknowledgement, then the write) while its outgoing ring is about to wrap;
// every interleaving within the preemption bound; the ring holds the two
// packets, whole, in either order.
func H17b_two_publishers() {
	bf, err := newBuffer(1)
	if err != nil {
		panic(err)
	}
	k := int64(1 + vrtChoice("before_wrap", 6))
	c := 2*bf.size - k
	bf.cseq.set(c)
	bf.pseq.set(c)
	bf.pseq.gate = c
	svc := &service{out: bf}
	cm := message.NewConnectMessage()
	cm.SetVersion(4)
	cm.SetClientID([]byte("x"))
	cm.SetCleanSession(true)
	svc.sess = &sessions.Session{}
	if err := svc.sess.Init(cm); err != nil {
		panic(err)
	}
	mk := func(topic byte, id uint16, name string) (*message.PublishMessage, []byte) {
		m := message.NewPublishMessage()
		payload := []byte{vrtByte(name + ".p0"), vrtByte(name + ".p1"), vrtByte(name + ".p2"), 4, 5, 6, 7}
		m.SetTopic([]byte{topic})
		m.SetPayload(payload)
		m.SetQoS(1)
		m.SetPacketID(id)
		return m, specEncode(&specPkt{Typ: specPUBLISH, Flags: 2, ID: id, Topic: []byte{topic}, Payload: payload})
	}
	m1, w1 := mk('a', 11, "m1")
	m2, w2 := mk('b', 12, "m2")
	var e1, e2 error
	vrtGo(func() { e1 = svc.publish(m1, nil) })
	vrtGo(func() { e2 = svc.publish(m2, nil) })
	vrtJoin()
	vrtAssert("C17.writes_ok", vrtAnd(e1 == nil, e2 == nil))
	total := len(w1) + len(w2)
	vrtAssert("C17.ring_holds_both", bf.Len() == total)
	if bf.Len() != total {
		return
	}
	var wire []byte
	for len(wire) < total {
		p, perr := bf.ReadPeek(total - len(wire))
		if perr != nil && perr != ErrBufferInsufficientData {
			vrtAssert("C17.drain_ok", false)
			return
		}
		wire = append(wire, p...)
		bf.ReadCommit(len(p))
	}
	ab := append(append([]byte(nil), w1...), w2...)
	ba := append(append([]byte(nil), w2...), w1...)
	vrtAssert("C17.whole_packets_in_some_order", vrtOr(vrtBytesEq(wire, ab), vrtBytesEq(wire, ba)))
	vrtReach("C17.two_publishers")
}
