//go:build verif

package service

// C02: receiver side of QoS 1/2 (broker role): one ack per packet carrying the
// packet's id; QoS 1 handed on once; QoS 2 handed on once, not before its
// PUBREL, with the original content (model: DESIGN.md A.6).

type vrtPending struct {
	id       uint16
	payload  byte
	released bool
}

func H02_receiver() {
	K := vrtBound("N02packets", 3)
	b := vrtBroker("mockSuccess")
	s, _ := b.connect(vrtConnectPkt([]byte("s"), true))
	ans := vrtExchange(s, &specPkt{Typ: specSUBSCRIBE, ID: 1, Topics: [][]byte{[]byte("#")}, QoS: []byte{2}})
	vrtAssert("C02.harness_suback", vrtBytesEq(ans, []byte{0x90, 3, 0, 1, 2}))
	p, _ := b.connect(vrtConnectPkt([]byte("p"), true))
	var pending []vrtPending
	for k := 0; k < K; k++ {
		kind := vrtChoice("kind", 4)
		id := vrtUint16("id")
		vrtAssume(id != 0)
		payload := vrtByte("payload")
		dup := vrtBool("dup")
		var pkt *specPkt
		var wantReply []byte
		var wantForward []byte // payload bytes expected on the subscriber's wire, in order
		var wantQos byte
		switch kind {
		case 0: // PUBLISH QoS 1
			pkt = &specPkt{Typ: specPUBLISH, Flags: 2 | vrtB2b(dup, 8), ID: id, Topic: []byte("t"), Payload: []byte{payload}}
			wantReply = []byte{0x40, 2, byte(id >> 8), byte(id)}
			wantForward = []byte{payload}
			wantQos = 1
		case 1: // PUBLISH QoS 2
			pkt = &specPkt{Typ: specPUBLISH, Flags: 4 | vrtB2b(dup, 8), ID: id, Topic: []byte("t"), Payload: []byte{payload}}
			wantReply = []byte{0x50, 2, byte(id >> 8), byte(id)}
			known := false
			for i := range pending {
				if pending[i].id == id {
					known = true
				}
			}
			if !known {
				pending = append(pending, vrtPending{id: id, payload: payload})
			} else {
				vrtReach("C02.duplicate_qos2_publish")
			}
		case 2: // PUBREL
			pkt = &specPkt{Typ: specPUBREL, ID: id}
			wantReply = []byte{0x70, 2, byte(id >> 8), byte(id)}
			for i := range pending {
				if pending[i].id == id {
					pending[i].released = true
				}
			}
			for len(pending) > 0 && pending[0].released {
				wantForward = append(wantForward, pending[0].payload)
				pending = pending[1:]
			}
			wantQos = 2
			if len(wantForward) > 0 {
				vrtReach("C02.qos2_handed_over")
			}
		default: // unrelated traffic
			pkt = &specPkt{Typ: specPINGREQ}
			wantReply = []byte{0xD0, 0}
		}
		reply := vrtExchange(p, pkt)
		vrtAssert("C02.exactly_one_ack_with_the_packet_id", vrtBytesEq(reply, wantReply))
		fw, ok := vrtParse(s.peerTake())
		vrtAssert("C02.stream_wellformed", ok)
		vrtAssert("C02.handed_over_count", len(fw) == len(wantForward))
		for i := 0; i < len(fw) && i < len(wantForward); i++ {
			okp := vrtAnd(fw[i].Typ == specPUBLISH, vrtAnd(vrtBytesEq(fw[i].Topic, []byte("t")), vrtBytesEq(fw[i].Payload, []byte{wantForward[i]})))
			vrtAssert("C02.handed_over_original_content", okp)
			vrtAssert("C02.handed_over_qos", (fw[i].Flags>>1)&3 == wantQos)
		}
		vrtObserve("step", kind, reply, len(fw))
	}
	vrtReach("C02.sequence")
}

// H02_resume: a QoS 2 exchange that spans a reconnect of a persistent session:
// PUBLISH and PUBREC on the first connection, which is then cut; the PUBREL
// arrives on the resumed session's next connection. The stored message is
// handed on exactly once, at that PUBREL, with its original content.
func H02_resume() {
	b := vrtBroker("mockSuccess")
	in := vrtNewInproc()
	b.svr.Subscribe("#", 2, &in.fn)
	c1, _ := b.connect(vrtConnectPkt([]byte("c"), false))
	id := vrtUint16("id")
	vrtAssume(id != 0)
	payload := []byte{vrtByte("payload")}
	ans := vrtExchange(c1, &specPkt{Typ: specPUBLISH, Flags: 4, ID: id, Topic: []byte("t"), Payload: payload})
	vrtAssert("C02.exactly_one_ack_with_the_packet_id", vrtBytesEq(ans, []byte{0x50, 2, byte(id >> 8), byte(id)}))
	vrtAssert("C02.qos2_not_before_pubrel", len(in.take()) == 0)
	vrtEnd(c1, 1) // network drop
	vrtAssert("C02.qos2_not_before_pubrel", len(in.take()) == 0)
	c2, ack := b.connect(vrtConnectPkt([]byte("c"), false))
	vrtAssert("C02.harness_session_resumed", vrtIsConnack(ack, true, 0))
	if vrtBool("publish_repeated_first") {
		// the sender may repeat the PUBLISH with DUP before it goes on
		ans = vrtExchange(c2, &specPkt{Typ: specPUBLISH, Flags: 4 | 8, ID: id, Topic: []byte("t"), Payload: payload})
		vrtAssert("C02.exactly_one_ack_with_the_packet_id", vrtBytesEq(ans, []byte{0x50, 2, byte(id >> 8), byte(id)}))
		vrtAssert("C02.qos2_not_before_pubrel", len(in.take()) == 0)
	}
	ans = vrtExchange(c2, &specPkt{Typ: specPUBREL, ID: id})
	vrtAssert("C02.exactly_one_ack_with_the_packet_id", vrtBytesEq(ans, []byte{0x70, 2, byte(id >> 8), byte(id)}))
	got := in.take()
	vrtAssert("C02.handed_over_count", len(got) == 1)
	if len(got) == 1 {
		vrtAssert("C02.handed_over_content", vrtAnd(vrtBytesEq(got[0].Topic, []byte("t")), vrtBytesEq(got[0].Payload, payload)))
	}
	ans = vrtExchange(c2, &specPkt{Typ: specPUBREL, ID: id})
	vrtAssert("C02.exactly_one_ack_with_the_packet_id", vrtBytesEq(ans, []byte{0x70, 2, byte(id >> 8), byte(id)}))
	vrtAssert("C02.handed_over_count", len(in.take()) == 0)
	vrtReach("C02.resumed_exchange")
}

// H02_refused_topic: a QoS 0/1 PUBLISH the topic store refuses (a topic in the
// $ space) is acknowledged like any other, processed ONCE (a hook on the topic
// store counts the look-ups for it), and the packets behind it are processed.
func H02_refused_topic() {
	b := vrtBroker("mockSuccess")
	in := vrtNewInproc()
	b.svr.Subscribe("#", 1, &in.fn)
	c, _ := b.connect(vrtConnectPkt([]byte("c"), true))
	lookups := 0
	vrtTopicsHook.onSubscribers = func(t []byte) {
		if len(t) > 0 && t[0] == '$' {
			lookups++
			vrtAssert("C02.refused_publish_processed_once", lookups <= 1)
		}
	}
	q := byte(vrtChoice("qos", 2))
	pk := &specPkt{Typ: specPUBLISH, Flags: q << 1, Topic: []byte("$x"), Payload: []byte("1")}
	next := &specPkt{Typ: specPUBLISH, Flags: 2, ID: 3, Topic: []byte("t"), Payload: []byte("2")}
	var want []byte
	if q > 0 {
		pk.ID = 2
		want = append(want, 0x40, 2, 0, 2)
	}
	want = append(want, 0x40, 2, 0, 3)
	c.peerSend(specEncode(pk))
	c.peerSend(specEncode(next))
	vrtQuiesce()
	vrtTopicsHook.onSubscribers = nil
	vrtAssert("C02.exactly_one_ack_with_the_packet_id", vrtBytesEq(c.peerTake(), want))
	got := in.take()
	vrtAssert("C02.handed_over_count", len(got) == 1)
	vrtAssert("C02.connection_stays_usable", !c.isClosed())
	vrtReach("C02.refused_topic")
}

// H02_pipelined_then_eof: a publisher writes two or three QoS 1 / QoS 2 PUBLISH packets (and the PUBRELs) in
// one go and closes its sending side right behind them (the end of the stream arrives with the last bytes
// or in a read of its own); it still reads. Everything that was received before the end of the stream is
// processed as usual: a subscriber is handed each message exactly once, in order - also when the fan-out of the first one was held up while the end of
// the stream arrived (round-9 change C02-18: the receiver's clean-up for dead connections, which also
// closed the outgoing ring, ran for a plain end of stream as well).
func H02_pipelined_then_eof() {
	b := vrtBroker("mockSuccess")
	s, _ := b.connect(vrtConnectPkt([]byte("s"), true))
	vrtExchange(s, &specPkt{Typ: specSUBSCRIBE, ID: 1, Topics: [][]byte{[]byte("t")}, QoS: []byte{2}})
	held := vrtBool("fanout_held_up")
	g := vrtNewGate()
	if held {
		b.svr.Subscribe("t", 0, &g.fn)
	}
	p, _ := b.connect(vrtConnectPkt([]byte("p"), true))
	n := 2 + vrtChoice("packets", 2)
	q := 1 + byte(vrtChoice("qos", 2))
	var burst []byte
	for i := 0; i < n; i++ {
		burst = append(burst, specEncode(&specPkt{Typ: specPUBLISH, Flags: q << 1, ID: uint16(10 + i), Topic: []byte("t"), Payload: []byte{'m', byte('1' + i)}})...)
	}
	if q == 2 {
		for i := 0; i < n; i++ {
			burst = append(burst, specEncode(&specPkt{Typ: specPUBREL, Flags: 2, ID: uint16(10 + i)})...)
		}
	}
	p.mu.Lock()
	p.eofWithLast = vrtBool("eof_with_last_bytes")
	p.in = append(p.in, burst...)
	p.peerClosed = true
	p.cond.Broadcast()
	p.mu.Unlock()
	vrtQuiesce()
	if held {
		g.release()
		vrtQuiesce()
	}
	acks, ok := vrtParse(p.peerTake())
	vrtAssert("C02.stream_wellformed", ok)
	// (whether the last acknowledgements still reach a peer that has closed its sending side depends on how fast
	// the teardown that follows closes the socket: not demanded here; none may come twice or carry another id)
	want := n
	if q == 2 {
		want = 2 * n
	}
	vrtAssert("C02.no_surplus_ack", len(acks) <= want)
	for i := range acks {
		vrtAssert("C02.ack_ids_from_the_requests", acks[i].ID >= 10 && acks[i].ID < uint16(10+n))
	}
	got, ok2 := vrtParse(s.peerTake())
	vrtAssert("C02.stream_wellformed", ok2)
	vrtAssert("C02.handed_over_count", len(got) == n)
	for i := 0; i < n && i < len(got); i++ {
		vrtAssert("C02.handed_over_original_content", vrtAnd(got[i].Typ == specPUBLISH, vrtBytesEq(got[i].Payload, []byte{'m', byte('1' + i)})))
	}
	vrtReach("C02.pipelined_then_eof")
}
