//go:build verif

package service

import (
	"fmt"

	"github.com/mdzio/go-mqtt/message"
	"github.com/mdzio/go-mqtt/sessions"
	"github.com/mdzio/go-mqtt/topics"
)

// The broker bench: a real Server (real checkConfiguration, handleConnection,
// start, processor / receiver / sender, stop) on vrtConn pipes; the harness is
// the raw peer of every connection and observes at quiescence.

type vrtBench struct {
	svr   *Server
	conns []*vrtConn
}

var vrtBenchSeq int

// vrtHookTopics wraps the topic store so that a harness can act at the moment
// the broker changes a subscription (ordering of effect versus acknowledgement).
type vrtHookTopics struct {
	topics.Provider
	onSubscribe   func(filter []byte)
	onUnsubscribe func(filter []byte)
	onRetained    func(filter []byte)
	onSubscribers func(topic []byte)
}

func (h *vrtHookTopics) Subscribe(topic []byte, qos byte, sub interface{}) (byte, error) {
	if h.onSubscribe != nil {
		h.onSubscribe(topic)
	}
	return h.Provider.Subscribe(topic, qos, sub)
}

func (h *vrtHookTopics) Subscribers(topic []byte, qos byte, subs *[]interface{}, qoss *[]byte) error {
	if h.onSubscribers != nil {
		h.onSubscribers(topic)
	}
	return h.Provider.Subscribers(topic, qos, subs, qoss)
}

func (h *vrtHookTopics) Retained(topic []byte, msgs *[]*message.PublishMessage) error {
	if h.onRetained != nil {
		h.onRetained(topic)
	}
	return h.Provider.Retained(topic, msgs)
}

func (h *vrtHookTopics) Unsubscribe(topic []byte, sub interface{}) error {
	if h.onUnsubscribe != nil {
		h.onUnsubscribe(topic)
	}
	return h.Provider.Unsubscribe(topic, sub)
}

var vrtTopicsHook *vrtHookTopics // set by vrtBroker

// vrtBroker: a broker with its own (fresh) session and topic stores.
func vrtBroker(authenticator string) *vrtBench {
	vrtBenchSeq++
	name := fmt.Sprintf("vrt%d", vrtBenchSeq)
	sessions.Register(name, sessions.NewMemProvider())
	vrtTopicsHook = &vrtHookTopics{Provider: topics.NewMemProvider()}
	topics.Register(name, vrtTopicsHook)
	svr := &Server{BufferSize: 1, SessionsProvider: name, TopicsProvider: name, Authenticator: authenticator}
	if err := svr.checkConfiguration(); err != nil {
		panic(err)
	}
	return &vrtBench{svr: svr}
}

// open starts handleConnection on a new pipe (in its own thread, as the accept
// loop does) and returns the peer end.
func (b *vrtBench) open() *vrtConn {
	c := vrtNewConn()
	b.conns = append(b.conns, c)
	vrtGo(func() { b.svr.handleConnection(c) })
	return c
}

// connect: open + send a CONNECT; returns the peer end and the bytes answered.
func (b *vrtBench) connect(p *specPkt) (*vrtConn, []byte) {
	c := b.open()
	c.peerSend(specEncode(p))
	vrtQuiesce()
	return c, c.peerTake()
}

func vrtConnectPkt(id []byte, clean bool) *specPkt {
	f := byte(0)
	if clean {
		f = 2
	}
	return &specPkt{Typ: specCONNECT, Proto: []byte("MQTT"), Level: 4, CFlags: f, KeepAlive: 60, ClientID: id}
}

// exchange: send packets, wait for quiescence, return the answer bytes.
func vrtExchange(c *vrtConn, pkts ...*specPkt) []byte {
	for _, p := range pkts {
		c.peerSend(specEncode(p))
	}
	vrtQuiesce()
	return c.peerTake()
}

// vrtParse splits a byte stream written by the library into packets; ok=false
// if it is not a sequence of complete well-formed packets.
func vrtParse(b []byte) ([]specPkt, bool) {
	var out []specPkt
	for len(b) > 0 {
		p, n, ok := specDecode(b)
		if !ok {
			return out, false
		}
		out = append(out, p)
		b = b[n:]
	}
	return out, true
}

func vrtIsConnack(b []byte, sp bool, rc byte) bool {
	if len(b) != 4 {
		return false
	}
	a := byte(0)
	if sp {
		a = 1
	}
	return vrtAnd(vrtAnd(b[0] == 0x20, b[1] == 2), vrtAnd(b[2] == a, b[3] == rc))
}

var _ = message.QosAtMostOnce
