//go:build verif

package service

// C16 (bounded): every connection is torn down completely, whatever state its
// buffers are in. Decided here as: under the canonical schedule, for the fault
// sequences below, when the system has gone quiet after the endings every
// goroutine of every ended connection has finished, its subscriptions and (clean)
// session are gone, and Server.Close returns. A connection goroutine that can
// never run again shows up as a live interpreter thread at quiescence (or as a
// deadlock of Server.Close).

const vrtBig = 8400 // more than one read block: two of them overflow a 16 KiB ring

func vrtBigPublish(topic string, seq byte) *specPkt {
	payload := make([]byte, vrtBig)
	for i := range payload {
		payload[i] = seq
	}
	return &specPkt{Typ: specPUBLISH, Topic: []byte(topic), Payload: payload}
}

func H16_teardown() {
	b := vrtBroker("mockSuccess")
	base := vrtLiveGoroutines()
	cond := vrtChoice("condition", 4) // idle, subscriber stalled (own outbound ring full), publisher blocked behind it too, cross-blocked pair
	how := vrtChoice("ending", 5)     // DISCONNECT, network drop, deadline expiry, protocol error, Server.Close
	var s, p *vrtConn
	if vrtBool("publisher_connects_first") {
		p, _ = b.connect(vrtConnectPkt([]byte("p"), true))
		s, _ = b.connect(vrtConnectPkt([]byte("s"), vrtBool("s_clean")))
	} else {
		s, _ = b.connect(vrtConnectPkt([]byte("s"), vrtBool("s_clean")))
		p, _ = b.connect(vrtConnectPkt([]byte("p"), true))
	}
	vrtExchange(s, &specPkt{Typ: specSUBSCRIBE, ID: 1, Topics: [][]byte{[]byte("to/s")}, QoS: []byte{0}})
	vrtExchange(p, &specPkt{Typ: specSUBSCRIBE, ID: 1, Topics: [][]byte{[]byte("to/p")}, QoS: []byte{0}})
	s.peerTake()
	p.peerTake()
	switch cond {
	case 1, 2:
		// s stops reading; p floods it: s's sender blocks in the socket, s's outgoing ring
		// fills, p's processor blocks in the delivery (and, for 2, p's own input ring fills)
		s.peerStall(100)
		n := 3
		if cond == 2 {
			n = 6
		}
		for i := 0; i < n; i++ {
			p.peerSend(specEncode(vrtBigPublish("to/s", byte(i))))
		}
		vrtQuiesce()
		vrtReach("C16.blocked_on_stalled_subscriber")
	case 3:
		// neither reads; each floods the other
		s.peerStall(100)
		p.peerStall(100)
		for i := 0; i < 3; i++ {
			p.peerSend(specEncode(vrtBigPublish("to/s", byte(i))))
			s.peerSend(specEncode(vrtBigPublish("to/p", byte(i))))
		}
		vrtQuiesce()
		vrtReach("C16.cross_blocked")
	}
	// the endings: first the publisher's connection, then the subscriber's
	ends := []*vrtConn{p, s}
	if how == 4 {
		// the server is shut down with the connections in this state
		vrtAssert("C16.server_close_returns", b.svr.Close() == nil)
		vrtQuiesce()
		ends = nil
		vrtReach("C16.server_close_as_ending")
	}
	for _, c := range ends {
		switch how {
		case 0:
			c.peerSend(specEncode(&specPkt{Typ: specDISCONNECT}))
			vrtQuiesce()
			c.peerClose()
		case 1:
			c.peerClose()
		case 2:
			c.peerExpireDeadline()
			vrtQuiesce()
			c.peerClose()
		case 3:
			c.peerSend([]byte{0x00, 0x00})
			vrtQuiesce()
			c.peerClose()
		}
		vrtQuiesce()
	}
	vrtAssert("C16.connections_closed", vrtAnd(p.isClosed(), s.isClosed()))
	vrtAssert("C16.no_goroutine_of_an_ended_connection_remains", vrtLiveGoroutines() == base)
	// nothing of the ended connections is still subscribed
	if how != 4 {
		var subs []interface{}
		var qoss []byte
		b.svr.topicsMgr.Subscribers([]byte("to/s"), 0, &subs, &qoss)
		n1 := len(subs)
		b.svr.topicsMgr.Subscribers([]byte("to/p"), 0, &subs, &qoss)
		vrtAssert("C16.subscriptions_removed", n1+len(subs) == 0)
		vrtAssert("C16.server_close_returns", b.svr.Close() == nil)
	}
	vrtObserve("teardown", cond, how)
	vrtReach("C16.torn_down")
}
