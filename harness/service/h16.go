//go:build verif

package service

// C16 (bounded): every connection is torn down completely, whatever state its
// buffers are in. Decided here as: under the canonical schedule, for the fault
// sequences below, when the system has gone quiet after the endings every
// goroutine of every ended connection has finished, its subscriptions and (clean)
// session are gone, and Server.Close returns. A connection goroutine that can
// never run again shows up as a live interpreter thread at quiescence (or as a
// deadlock of Server.Close).

const vrtBig = 8400 // more than one read block: two of them overflow a 16 KiB ring

func vrtBigPublish(topic string, seq byte) *specPkt {
	payload := make([]byte, vrtBig)
	for i := range payload {
		payload[i] = seq
	}
	return &specPkt{Typ: specPUBLISH, Topic: []byte(topic), Payload: payload}
}

// vrtPublishOfLen: a QoS 0 PUBLISH whose encoding is exactly total bytes long.
func vrtPublishOfLen(topic string, total int, seq byte) *specPkt {
	n := total - (1 + 1 + 2 + len(topic))
	if n+2+len(topic) >= 128 {
		n--
	}
	payload := make([]byte, n)
	for i := range payload {
		payload[i] = seq
	}
	pk := &specPkt{Typ: specPUBLISH, Topic: []byte(topic), Payload: payload}
	if len(specEncode(pk)) != total {
		panic("vrtPublishOfLen")
	}
	return pk
}

func H16_teardown() {
	b := vrtBroker("mockSuccess")
	base := vrtLiveGoroutines()
	// idle, subscriber stalled (own outbound ring full), publisher blocked behind it too, cross-blocked pair,
	// publisher flooding itself without reading (its processor blocked on its own outbound ring),
	// publisher blocked behind the stalled subscriber with a protocol error in the middle of its full pipeline
	cond := vrtChoice("condition", 6)
	// DISCONNECT, network drop, deadline expiry, protocol error, Server.Close,
	// write side broken (the broker cannot answer any more) and then a last SUBSCRIBE before the drop
	how := vrtChoice("ending", 6)
	var s, p *vrtConn
	sClean := vrtBool("s_clean")
	pid := []byte("p")
	if vrtBool("anonymous_publisher") {
		pid = nil // a zero-length client id: the broker makes one up, the session is a clean one
	}
	pconn := vrtConnectPkt(pid, true)
	switch vrtChoice("publisher_will", 4) {
	case 1:
		pconn = vrtConnectWithWill(pid, true, vrtWill{flag: true, topic: []byte("pw"), payload: []byte("x")})
	case 2:
		pconn = vrtConnectWithWill(pid, true, vrtWill{flag: true, topic: []byte("$pw"), payload: []byte("x")})
	case 3:
		pconn = vrtConnectWithWill(pid, true, vrtWill{flag: true, retain: true, topic: []byte("#"), payload: nil})
	}
	if vrtBool("publisher_connects_first") {
		p, _ = b.connect(pconn)
		s, _ = b.connect(vrtConnectPkt([]byte("s"), sClean))
	} else {
		s, _ = b.connect(vrtConnectPkt([]byte("s"), sClean))
		p, _ = b.connect(pconn)
	}
	vrtExchange(s, &specPkt{Typ: specSUBSCRIBE, ID: 1, Topics: [][]byte{[]byte("to/s")}, QoS: []byte{0}})
	vrtExchange(p, &specPkt{Typ: specSUBSCRIBE, ID: 1, Topics: [][]byte{[]byte("to/p")}, QoS: []byte{0}})
	s.peerTake()
	p.peerTake()
	switch cond {
	case 1, 2:
		// s stops reading; p floods it: s's sender blocks in the socket, s's outgoing ring
		// fills, p's processor blocks in the delivery (and, for 2, p's own input ring fills)
		s.peerStall(100)
		n := 3
		if cond == 2 {
			n = 6
		}
		for i := 0; i < n; i++ {
			p.peerSend(specEncode(vrtBigPublish("to/s", byte(i))))
		}
		vrtQuiesce()
		vrtReach("C16.blocked_on_stalled_subscriber")
	case 3:
		// neither reads; each floods the other
		s.peerStall(100)
		p.peerStall(100)
		for i := 0; i < 3; i++ {
			p.peerSend(specEncode(vrtBigPublish("to/s", byte(i))))
			s.peerSend(specEncode(vrtBigPublish("to/p", byte(i))))
		}
		vrtQuiesce()
		vrtReach("C16.cross_blocked")
	case 4:
		p.peerStall(100)
		for i := 0; i < 4; i++ {
			p.peerSend(specEncode(vrtBigPublish("to/p", byte(i))))
		}
		vrtQuiesce()
		vrtReach("C16.blocked_on_own_ring")
	case 5:
		// sizes chosen so that p's processor is blocked delivering a small message X to the
		// stalled s while p's receiver is parked on p's full inbound ring with less than
		// one read block free even after X is committed, and the packet after X is invalid:
		// when s has gone, p's processor ends the connection by itself with the receiver
		// still parked on the ring.
		s.peerStall(100)
		p.peerSend(specEncode(vrtPublishOfLen("to/s", 8409, 0)))
		vrtQuiesce()
		for i := 0; i < 30; i++ {
			s.peerSend(specEncode(&specPkt{Typ: specPINGREQ}))
		}
		vrtQuiesce()
		p.peerSend(specEncode(vrtPublishOfLen("to/s", 8409, 1)))
		p.peerSend(specEncode(vrtPublishOfLen("to/s", 7600, 2)))
		p.peerSend(specEncode(vrtPublishOfLen("to/s", 120, 3)))
		p.peerSend([]byte{0x00, 0x00})
		p.peerSend(specEncode(vrtPublishOfLen("to/s", 8409, 4)))
		p.peerSend(specEncode(vrtPublishOfLen("to/s", 8409, 5)))
		vrtQuiesce()
		vrtReach("C16.error_in_full_pipeline")
		for _, svc := range b.svr.svcs {
			if svc.conn == p && int64(svc.in.Len()) > svc.in.size-defaultReadBlockSize+120 {
				vrtReach("C16.receiver_parked_behind_error") // the engineered state is the one described above
			}
		}
	}
	secondConnect := false
	if how == 3 {
		secondConnect = vrtBool("second_connect")
	}
	// the endings, one connection after the other (either order)
	ends := []*vrtConn{p, s}
	if vrtBool("subscriber_ends_first") {
		ends = []*vrtConn{s, p}
	}
	if how == 4 {
		// the server is shut down with the connections in this state
		vrtAssert("C16.server_close_returns", b.svr.Close() == nil)
		vrtQuiesce()
		ends = nil
		vrtReach("C16.server_close_as_ending")
	}
	for _, c := range ends {
		switch how {
		case 0:
			c.peerSend(specEncode(&specPkt{Typ: specDISCONNECT}))
			vrtQuiesce()
			c.peerClose()
		case 1:
			c.peerClose()
		case 2:
			c.peerExpireDeadline()
			vrtQuiesce()
			c.peerClose()
		case 3:
			if secondConnect {
				c.peerSend(specEncode(vrtConnectPkt([]byte("again"), true))) // a second CONNECT is a protocol violation, too
			} else {
				c.peerSend([]byte{0x00, 0x00})
			}
			vrtQuiesce()
			c.peerClose()
		case 5:
			c.mu.Lock()
			c.failWrites = true
			c.mu.Unlock()
			c.peerSend(specEncode(&specPkt{Typ: specPINGREQ}))
			vrtQuiesce()
			c.peerSend(specEncode(&specPkt{Typ: specSUBSCRIBE, ID: 9, Topics: [][]byte{[]byte("late")}, QoS: []byte{0}}))
			vrtQuiesce()
			c.peerClose()
		}
		vrtQuiesce()
	}
	vrtAssert("C16.connections_closed", vrtAnd(p.isClosed(), s.isClosed()))
	vrtAssert("C16.no_goroutine_of_an_ended_connection_remains", vrtLiveGoroutines() == base)
	// clean sessions are discarded, the persistent one is kept
	wantSessions := 0
	if !sClean {
		wantSessions = 1
	}
	if how != 4 { // (Server.Close closes the session store as a whole)
		vrtAssert("C16.clean_sessions_discarded", b.svr.sessMgr.Count() == wantSessions)
	}
	// nothing of the ended connections is still subscribed
	if how != 4 {
		var subs []interface{}
		var qoss []byte
		b.svr.topicsMgr.Subscribers([]byte("to/s"), 0, &subs, &qoss)
		n1 := len(subs)
		b.svr.topicsMgr.Subscribers([]byte("to/p"), 0, &subs, &qoss)
		n2 := len(subs)
		b.svr.topicsMgr.Subscribers([]byte("late"), 0, &subs, &qoss)
		vrtAssert("C16.subscriptions_removed", n1+n2+len(subs) == 0)
		vrtAssert("C16.server_close_returns", b.svr.Close() == nil)
	}
	vrtObserve("teardown", cond, how)
	vrtReach("C16.torn_down")
}

// H16_churn_then_close: connections come and go before the server is closed: a history of four to six
// steps, each either "a new client connects" or "the k-th oldest live connection ends" (DISCONNECT or
// drop), then Server.Close. Afterwards every connection that was still live is closed, none of the
// library's goroutines remains and Server.Close has returned (round-8 change C16-15: a stopped connection
// took itself off the server's list by swapping the last entry into its slot without telling that entry,
// so that after connect A, connect B, end A, connect C, end B the list no longer held C).
func H16_churn_then_close() {
	b := vrtBroker("mockSuccess")
	base := vrtLiveGoroutines()
	var live []*vrtConn
	var all []*vrtConn
	steps := 4 + vrtChoice("steps", 3)
	for i := 0; i < steps; i++ {
		if len(live) == 0 || (len(live) < 3 && vrtBool("connect")) {
			c, ack := b.connect(vrtConnectPkt([]byte{'c', byte('0' + i)}, i%2 == 0))
			vrtAssert("C16.harness_connack", len(ack) == 4 && ack[3] == 0)
			vrtExchange(c, &specPkt{Typ: specSUBSCRIBE, ID: 1, Topics: [][]byte{[]byte("t")}, QoS: []byte{0}})
			live = append(live, c)
			all = append(all, c)
		} else {
			k := vrtChoice("which_ends", len(live))
			vrtEnd(live[k], vrtChoice("end", 2))
			vrtAssert("C16.connections_closed", live[k].isClosed())
			live = append(live[:k:k], live[k+1:]...)
		}
	}
	if len(live) > 0 {
		vrtReach("C16.close_with_live_connections")
	}
	returned := false
	vrtGo(func() {
		b.svr.Close()
		returned = true
	})
	vrtJoin()
	vrtQuiesce()
	vrtAssert("C16.server_close_returns", returned)
	for _, c := range all {
		vrtAssert("C16.connections_closed", c.isClosed())
	}
	vrtAssert("C16.no_goroutine_of_an_ended_connection_remains", vrtLiveGoroutines() == base)
	vrtReach("C16.churn_then_close")
}

// H16_truncated_packet_at_end: the connection ends - dropped by the peer, keep-alive expiry, Server.Close -
// while its inbound ring holds the beginning of a packet that will never be completed (a whole fixed
// header and part of the body, or only part of the header). Its goroutines must still come to an end: the
// will is published (drop, expiry), the clean session is discarded, nothing keeps running (round-8
// change C16-16: a closed ring answered "not enough data yet" instead of end-of-stream to a processor
// that was waiting for the rest of the packet, and the processor asked again, for ever).
func H16_truncated_packet_at_end() {
	b := vrtBroker("mockSuccess")
	base := vrtLiveGoroutines()
	wit := vrtNewInproc()
	b.svr.Subscribe("w", 0, &wit.fn)
	c, _ := b.connect(vrtConnectWithWill([]byte("c"), true, vrtWill{flag: true, topic: []byte("w"), payload: []byte("x")}))
	payload := make([]byte, 95)
	pk := specEncode(&specPkt{Typ: specPUBLISH, Topic: []byte("a"), Payload: payload})
	cut := []int{1, 2, 10, len(pk) - 1}[vrtChoice("bytes_received", 4)]
	c.peerSend(pk[:cut])
	vrtQuiesce()
	vrtAssert("C16.harness_still_open", !c.isClosed())
	how := vrtChoice("ending", 3)
	switch how {
	case 0:
		c.peerClose()
	case 1:
		dl, _, _, _ := c.armState()
		vrtClockSet(dl + 1)
		c.peerExpireDeadline()
	case 2:
		vrtGo(func() { b.svr.Close() })
		vrtJoin()
	}
	vrtQuiesce()
	vrtAssert("C16.connections_closed", c.isClosed())
	vrtAssert("C16.no_goroutine_of_an_ended_connection_remains", vrtLiveGoroutines() == base)
	if how != 2 {
		vrtAssert("C16.will_dealt_with", len(wit.take()) == 1)
		vrtAssert("C16.clean_sessions_discarded", b.svr.sessMgr.Count() == 0)
	}
	vrtReach("C16.truncated_packet_at_end")
}

// H16_oversized_packet: a client sends a packet that is larger than the connection can ever take in (more
// than the ring size minus one read block; the property's payload limit) and then drops the connection -
// or simply falls silent. Whatever the broker does with the packet, the connection must come to an end
// once the peer is gone (drop) or the keep-alive period has passed (silence): closed, goroutines gone,
// clean session discarded. The packet arrives behind a PINGREQ, in two segments cut at a symbolic point.
func H16_oversized_packet() {
	b := vrtBroker("mockSuccess")
	base := vrtLiveGoroutines()
	c, _ := b.connect(vrtConnectPkt([]byte("c"), true))
	sizes := []int{8192, 8200, 12000, 16383}
	total := sizes[vrtChoice("packet_size", len(sizes))]
	payload := make([]byte, total-1-2-3)
	pk := specEncode(&specPkt{Typ: specPUBLISH, Topic: []byte("a"), Payload: payload})
	vrtAssert("C16.harness_packet_size", len(pk) == total)
	first := []int{0, 1, 3, 100}[vrtChoice("bytes_with_the_ping", 4)]
	c.peerSend(append(specEncode(&specPkt{Typ: specPINGREQ}), pk[:first]...))
	vrtQuiesce()
	c.peerSend(pk[first:])
	vrtQuiesce()
	if total <= 8192 {
		vrtAssert("C16.harness_still_open", !c.isClosed())
	}
	silence := vrtBool("silence_instead_of_drop")
	if e := vrtBound("N16ending", 2); e < 2 && silence != (e == 1) {
		return // (C19 runs the silent ending only)
	}
	if silence {
		dl, _, _, _ := c.armState()
		vrtClockSet(dl + 1)
		c.peerExpireDeadline()
	} else {
		c.peerClose()
	}
	vrtQuiesce()
	vrtAssert("C16.connections_closed", c.isClosed())
	vrtAssert("C16.no_goroutine_of_an_ended_connection_remains", vrtLiveGoroutines() == base)
	vrtAssert("C16.clean_sessions_discarded", b.svr.sessMgr.Count() == 0)
	vrtReach("C16.oversized_packet")
}

// H16_disconnect_stalled_half_closed: a subscriber has stopped reading, its outgoing ring is full and a
// publisher is blocked in the delivery to it; now it sends DISCONNECT (or nothing) and shuts down its
// sending side - it never reads again and it does not reset the connection. The broker still ends that
// connection: closed, goroutines gone, clean session discarded, subscription gone - and the publisher
// that was held up gets on (its PINGREQ is answered) (round-9 change C16-18: the teardown first waited
// for the outgoing ring to drain, "so that the last acknowledgement reaches the peer").
func H16_disconnect_stalled_half_closed() {
	b := vrtBroker("mockSuccess")
	base := vrtLiveGoroutines()
	s, _ := b.connect(vrtConnectPkt([]byte("s"), true))
	vrtExchange(s, &specPkt{Typ: specSUBSCRIBE, ID: 1, Topics: [][]byte{[]byte("to/s")}, QoS: []byte{0}})
	s.peerTake()
	p, _ := b.connect(vrtConnectPkt([]byte("p"), true))
	s.peerStall(100)
	for i := 0; i < 3; i++ {
		p.peerSend(specEncode(vrtBigPublish("to/s", byte(i))))
	}
	vrtQuiesce()
	if vrtBool("sends_disconnect") {
		s.peerSend(specEncode(&specPkt{Typ: specDISCONNECT}))
	}
	s.peerHalfClose()
	vrtQuiesce()
	vrtAssert("C16.connections_closed", s.isClosed())
	pong := vrtExchange(p, &specPkt{Typ: specPINGREQ})
	vrtAssert("C16.held_up_publisher_gets_on", vrtBytesEq(pong, []byte{0xd0, 0}))
	var subs []interface{}
	var qoss []byte
	b.svr.topicsMgr.Subscribers([]byte("to/s"), 0, &subs, &qoss)
	vrtAssert("C16.subscriptions_removed", len(subs) == 0)
	vrtEnd(p, 0)
	vrtAssert("C16.no_goroutine_of_an_ended_connection_remains", vrtLiveGoroutines() == base)
	vrtAssert("C16.clean_sessions_discarded", b.svr.sessMgr.Count() == 0)
	vrtReach("C16.disconnect_stalled_half_closed")
}
