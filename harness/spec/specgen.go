//go:build verif

package PKGNAME

// vrtLevelName: a level-structured name of 1..V levels. Each level is a token:
// one literal byte (symbolic, not one of "/+#$"), or - in filters - "+" or "#"
// ("#" may be generated in a non-final position: an invalid filter).
// Empty levels are excluded here (known finding, covered by H06a/H06b).
func vrtLevelName(name string, V int, filter bool) []byte {
	k := vrtChoice(name+".levels", V) + 1
	var out []byte
	for i := 0; i < k; i++ {
		if i > 0 {
			out = append(out, '/')
		}
		tok := 0
		if filter {
			tok = vrtChoice(name+".tok", 3)
		}
		switch tok {
		case 0:
			c := vrtByte(name + ".lit")
			vrtAssume(vrtAnd(vrtAnd(c != '/', c != '+'), vrtAnd(c != '#', c != '$')))
			out = append(out, c)
		case 1:
			out = append(out, '+')
		case 2:
			out = append(out, '#')
		}
	}
	return out
}

