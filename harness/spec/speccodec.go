//go:build verif

package PKGNAME

// Reference codec written from the MQTT 3.1.1 text (sections 2 and 3),
// independent of the library's codec: no shared helpers. Strict region only:
// specDecode accepts exactly the images of specEncode (DESIGN.md appendix A.2).

type specPkt struct {
	Typ   byte
	Flags byte // low nibble of the first byte
	ID    uint16
	// CONNECT
	Proto     []byte
	Level     byte
	CFlags    byte
	KeepAlive uint16
	ClientID  []byte
	WillTopic []byte
	WillMsg   []byte
	User      []byte
	Pass      []byte
	// CONNACK
	SP bool
	RC byte
	// PUBLISH
	Topic   []byte
	Payload []byte
	// SUBSCRIBE / UNSUBSCRIBE / SUBACK
	Topics [][]byte
	QoS    []byte
	Codes  []byte
}

const (
	specCONNECT     = 1
	specCONNACK     = 2
	specPUBLISH     = 3
	specPUBACK      = 4
	specPUBREC      = 5
	specPUBREL      = 6
	specPUBCOMP     = 7
	specSUBSCRIBE   = 8
	specSUBACK      = 9
	specUNSUBSCRIBE = 10
	specUNSUBACK    = 11
	specPINGREQ     = 12
	specPINGRESP    = 13
	specDISCONNECT  = 14
)

// specFixedFlags: the flags nibble every type other than PUBLISH must carry.
func specFixedFlags(typ byte) byte {
	if typ == specPUBREL || typ == specSUBSCRIBE || typ == specUNSUBSCRIBE {
		return 2
	}
	return 0
}

// specVarint encodes a remaining length (0 <= n < 2^28) in the minimal form.
func specVarint(n int) []byte {
	var out []byte
	for {
		d := byte(n % 128)
		n = n / 128
		if n > 0 {
			d |= 0x80
		}
		out = append(out, d)
		if n == 0 {
			return out
		}
	}
}

// specFrame parses the fixed header. hdr = 1 + number of length bytes.
// Only minimal length encodings are in the strict region.
func specFrame(buf []byte) (typ, flags byte, remlen, hdr int, ok bool) {
	if len(buf) < 2 {
		return 0, 0, 0, 0, false
	}
	typ = buf[0] >> 4
	flags = buf[0] & 0x0f
	mult := 1
	i := 1
	for {
		if i > 4 || i >= len(buf) {
			return 0, 0, 0, 0, false
		}
		d := buf[i]
		remlen += int(d&0x7f) * mult
		mult *= 128
		i++
		if d&0x80 == 0 {
			if i > 2 && d == 0 {
				return 0, 0, 0, 0, false // not minimal
			}
			break
		}
	}
	return typ, flags, remlen, i, true
}

type specCur struct {
	b  []byte
	i  int
	ok bool
}

func (c *specCur) u8() byte {
	if !c.ok || c.i+1 > len(c.b) {
		c.ok = false
		return 0
	}
	v := c.b[c.i]
	c.i++
	return v
}

func (c *specCur) u16() uint16 {
	if !c.ok || c.i+2 > len(c.b) {
		c.ok = false
		return 0
	}
	v := uint16(c.b[c.i])<<8 | uint16(c.b[c.i+1])
	c.i += 2
	return v
}

func (c *specCur) lp() []byte {
	n := int(c.u16())
	if !c.ok || c.i+n > len(c.b) {
		c.ok = false
		return nil
	}
	v := c.b[c.i : c.i+n]
	c.i += n
	return v
}

func (c *specCur) rest() []byte {
	if !c.ok {
		return nil
	}
	v := c.b[c.i:]
	c.i = len(c.b)
	return v
}

func (c *specCur) done() bool { return c.ok && c.i == len(c.b) }

func specNoWild(t []byte) bool {
	ok := true
	for _, b := range t {
		ok = vrtAnd(ok, vrtAnd(b != '#', b != '+'))
	}
	return ok
}

// specClientIDOK: the library's documented policy (printable ASCII, at most 32 bytes).
func specClientIDOK(id []byte) bool {
	if len(id) > 32 {
		return false
	}
	ok := true
	for _, b := range id {
		ok = vrtAnd(ok, vrtAnd(b >= 0x20, b <= 0x7e))
	}
	return ok
}

func specProtoOK(name []byte, level byte) bool {
	if level == 4 {
		return vrtBytesEq(name, []byte("MQTT"))
	}
	if level == 3 {
		return vrtBytesEq(name, []byte("MQIsdp"))
	}
	return false
}

// specDecode: strict decoder. n is the size of the packet at the front of buf.
func specDecode(buf []byte) (p specPkt, n int, ok bool) {
	typ, flags, remlen, hdr, fok := specFrame(buf)
	if !fok || typ < 1 || typ > 14 {
		return p, 0, false
	}
	if len(buf) < hdr+remlen {
		return p, 0, false
	}
	n = hdr + remlen
	p.Typ = typ
	p.Flags = flags
	if typ != specPUBLISH && flags != specFixedFlags(typ) {
		return p, 0, false
	}
	c := &specCur{b: buf[hdr:n], ok: true}
	switch typ {
	case specCONNECT:
		p.Proto = c.lp()
		p.Level = c.u8()
		p.CFlags = c.u8()
		p.KeepAlive = c.u16()
		p.ClientID = c.lp()
		if !c.ok || !specProtoOK(p.Proto, p.Level) {
			return p, 0, false
		}
		f := p.CFlags
		will := f&0x04 != 0
		wq := (f >> 3) & 3
		if f&1 != 0 || wq > 2 || (!will && (wq != 0 || f&0x20 != 0)) {
			return p, 0, false
		}
		if f&0x80 == 0 && f&0x40 != 0 {
			return p, 0, false // password without user name
		}
		if len(p.ClientID) == 0 && f&0x02 == 0 {
			return p, 0, false
		}
		if !specClientIDOK(p.ClientID) {
			return p, 0, false
		}
		if will {
			p.WillTopic = c.lp()
			p.WillMsg = c.lp()
		}
		if f&0x80 != 0 {
			p.User = c.lp()
		}
		if f&0x40 != 0 {
			p.Pass = c.lp()
		}
	case specCONNACK:
		a := c.u8()
		p.RC = c.u8()
		if !c.ok || a > 1 || p.RC > 5 {
			return p, 0, false
		}
		p.SP = a == 1
	case specPUBLISH:
		q := (flags >> 1) & 3
		if q == 3 {
			return p, 0, false
		}
		p.Topic = c.lp()
		if !c.ok || len(p.Topic) == 0 || !specNoWild(p.Topic) {
			return p, 0, false
		}
		if q != 0 {
			p.ID = c.u16()
			if !c.ok || p.ID == 0 {
				return p, 0, false
			}
		}
		p.Payload = c.rest()
	case specPUBACK, specPUBREC, specPUBREL, specPUBCOMP, specUNSUBACK:
		p.ID = c.u16()
		if !c.ok || p.ID == 0 {
			return p, 0, false
		}
	case specSUBSCRIBE:
		p.ID = c.u16()
		if !c.ok || p.ID == 0 {
			return p, 0, false
		}
		for c.ok && c.i < len(c.b) {
			t := c.lp()
			q := c.u8()
			if !c.ok || len(t) == 0 || q > 2 {
				return p, 0, false
			}
			p.Topics = append(p.Topics, t)
			p.QoS = append(p.QoS, q)
		}
		if len(p.Topics) == 0 {
			return p, 0, false
		}
	case specSUBACK:
		p.ID = c.u16()
		p.Codes = c.rest()
		if !c.ok || p.ID == 0 || len(p.Codes) == 0 {
			return p, 0, false
		}
		cok := true
		for _, rc := range p.Codes {
			cok = vrtAnd(cok, vrtOr(rc <= 2, rc == 0x80))
		}
		if !cok {
			return p, 0, false
		}
	case specUNSUBSCRIBE:
		p.ID = c.u16()
		if !c.ok || p.ID == 0 {
			return p, 0, false
		}
		for c.ok && c.i < len(c.b) {
			t := c.lp()
			if !c.ok || len(t) == 0 {
				return p, 0, false
			}
			p.Topics = append(p.Topics, t)
		}
		if len(p.Topics) == 0 {
			return p, 0, false
		}
	case specPINGREQ, specPINGRESP, specDISCONNECT:
	}
	if !c.done() {
		return p, 0, false
	}
	return p, n, true
}

func specPutLP(out []byte, b []byte) []byte {
	out = append(out, byte(len(b)>>8), byte(len(b)))
	return append(out, b...)
}

// specEncode: the wire image of p (MQTT 3.1.1 sections 2-3).
func specEncode(p *specPkt) []byte {
	var body []byte
	switch p.Typ {
	case specCONNECT:
		body = specPutLP(body, p.Proto)
		body = append(body, p.Level, p.CFlags, byte(p.KeepAlive>>8), byte(p.KeepAlive))
		body = specPutLP(body, p.ClientID)
		if p.CFlags&0x04 != 0 {
			body = specPutLP(body, p.WillTopic)
			body = specPutLP(body, p.WillMsg)
		}
		if p.CFlags&0x80 != 0 {
			body = specPutLP(body, p.User)
		}
		if p.CFlags&0x40 != 0 {
			body = specPutLP(body, p.Pass)
		}
	case specCONNACK:
		a := byte(0)
		if p.SP {
			a = 1
		}
		body = append(body, a, p.RC)
	case specPUBLISH:
		body = specPutLP(body, p.Topic)
		if (p.Flags>>1)&3 != 0 {
			body = append(body, byte(p.ID>>8), byte(p.ID))
		}
		body = append(body, p.Payload...)
	case specPUBACK, specPUBREC, specPUBREL, specPUBCOMP, specUNSUBACK:
		body = append(body, byte(p.ID>>8), byte(p.ID))
	case specSUBSCRIBE:
		body = append(body, byte(p.ID>>8), byte(p.ID))
		for i, t := range p.Topics {
			body = specPutLP(body, t)
			body = append(body, p.QoS[i])
		}
	case specSUBACK:
		body = append(body, byte(p.ID>>8), byte(p.ID))
		body = append(body, p.Codes...)
	case specUNSUBSCRIBE:
		body = append(body, byte(p.ID>>8), byte(p.ID))
		for _, t := range p.Topics {
			body = specPutLP(body, t)
		}
	}
	fl := p.Flags
	if p.Typ != specPUBLISH {
		fl = specFixedFlags(p.Typ)
	}
	out := []byte{p.Typ<<4 | fl&0x0f}
	out = append(out, specVarint(len(body))...)
	return append(out, body...)
}

// specConnectClass classifies a first packet per DESIGN.md appendix A.3:
// 0 = acceptable CONNECT, 1 = well-formed CONNECT with unsupported protocol
// name/level, 2 = well-formed CONNECT with unacceptable client identifier,
// 3 = anything else (other type, malformed, truncated, trailing garbage),
// 4 = don't-care (non-minimal remaining-length encoding).
// For classes 0..2 the packet occupies exactly buf.
func specConnectClass(buf []byte) (class int, p specPkt) {
	typ, flags, remlen, hdr, fok := specFrame(buf)
	if !fok && len(buf) >= 3 && buf[1]&0x80 != 0 {
		// a remaining length that is not in its shortest form: MQTT 3.1.1 does not
		// forbid it explicitly - don't-care (class 4)
		return 4, p
	}
	if !fok || typ != specCONNECT || flags != 0 || len(buf) != hdr+remlen {
		return 3, p
	}
	c := &specCur{b: buf[hdr:], ok: true}
	p.Typ = typ
	p.Proto = c.lp()
	p.Level = c.u8()
	p.CFlags = c.u8()
	p.KeepAlive = c.u16()
	p.ClientID = c.lp()
	if !c.ok {
		return 3, p
	}
	f := p.CFlags
	will := f&0x04 != 0
	wq := (f >> 3) & 3
	if f&1 != 0 || wq > 2 || (!will && (wq != 0 || f&0x20 != 0)) || (f&0x80 == 0 && f&0x40 != 0) {
		return 3, p
	}
	if will {
		p.WillTopic = c.lp()
		p.WillMsg = c.lp()
	}
	if f&0x80 != 0 {
		if c.ok && c.i == len(c.b) {
			return 4, p // user-name flag without the field: 3.1-style leniency the library documents; don't-care
		}
		p.User = c.lp()
	}
	if f&0x40 != 0 {
		if c.ok && c.i == len(c.b) {
			return 4, p // password flag without the field: don't-care
		}
		p.Pass = c.lp()
	}
	if !c.done() {
		return 3, p
	}
	if !specProtoOK(p.Proto, p.Level) {
		return 1, p
	}
	if (len(p.ClientID) == 0 && f&0x02 == 0) || !specClientIDOK(p.ClientID) {
		return 2, p
	}
	return 0, p
}
