//go:build verif

package PKGNAME

// Topic names and filters per MQTT 3.1.1 section 4.7 (DESIGN.md appendix A.1).
// All functions are branch-free over the byte contents (lengths are concrete
// when they are called), so the oracle adds no paths of its own.

func specTopicValid(t []byte) bool {
	ok := len(t) >= 1
	for _, b := range t {
		ok = vrtAnd(ok, vrtAnd(b != '#', b != '+'))
	}
	return ok
}

// specFilterValid: '#' only as the whole last level, '+' only as a whole level.
func specFilterValid(f []byte) bool {
	n := len(f)
	ok := n >= 1
	for i := 0; i < n; i++ {
		startOfLevel := true
		if i > 0 {
			startOfLevel = f[i-1] == '/'
		}
		endOfLevel := true
		if i+1 < n {
			endOfLevel = f[i+1] == '/'
		}
		hashOK := vrtAnd(startOfLevel, i+1 == n)
		plusOK := vrtAnd(startOfLevel, endOfLevel)
		ok = vrtAnd(ok, vrtImplies(f[i] == '#', hashOK))
		ok = vrtAnd(ok, vrtImplies(f[i] == '+', plusOK))
	}
	return ok
}

// specMatch: does valid filter f match valid topic name t? Character-level
// dynamic programme; M[i][j] = f[i:] matches t[j:].
func specMatch(f, t []byte) bool {
	nf, nt := len(f), len(t)
	M := make([][]bool, nf+1)
	for i := range M {
		M[i] = make([]bool, nt+1)
	}
	for i := nf; i >= 0; i-- {
		for j := nt; j >= 0; j-- {
			if i == nf {
				M[i][j] = j == nt
				continue
			}
			c := f[i]
			// '#': everything that remains (it is the last character of a valid filter)
			isHash := c == '#'
			// '+': zero or more characters of the current level
			isPlus := c == '+'
			plus := M[i+1][j]
			lit := false
			if j < nt {
				plus = vrtOr(plus, vrtAnd(t[j] != '/', M[i][j+1]))
				lit = vrtAnd(t[j] == c, M[i+1][j+1])
			} else if i+2 == nf {
				// topic exhausted and the filter ends in "/#": '#' also matches the parent level
				lit = vrtAnd(c == '/', f[i+1] == '#')
			}
			M[i][j] = vrtOr(isHash, vrtOr(vrtAnd(isPlus, plus), vrtAnd(vrtAnd(vrtNot(isHash), vrtNot(isPlus)), lit)))
		}
	}
	return M[0][0]
}

func specMinQos(a, b byte) byte { return vrtIteByte(a < b, a, b) }
