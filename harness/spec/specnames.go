//go:build verif

package PKGNAME

// Topic names and filters per MQTT 3.1.1 section 4.7 (DESIGN.md appendix A.1).
// All functions are branch-free over the byte contents (lengths are concrete
// when they are called), so the oracle adds no paths of its own.

func specTopicValid(t []byte) bool {
	ok := len(t) >= 1
	for _, b := range t {
		ok = vrtAnd(ok, vrtAnd(b != '#', b != '+'))
	}
	return ok
}

// specFilterValid: '#' only as the whole last level, '+' only as a whole level.
func specFilterValid(f []byte) bool {
	n := len(f)
	ok := n >= 1
	for i := 0; i < n; i++ {
		startOfLevel := true
		if i > 0 {
			startOfLevel = f[i-1] == '/'
		}
		endOfLevel := true
		if i+1 < n {
			endOfLevel = f[i+1] == '/'
		}
		hashOK := vrtAnd(startOfLevel, i+1 == n)
		plusOK := vrtAnd(startOfLevel, endOfLevel)
		ok = vrtAnd(ok, vrtImplies(f[i] == '#', hashOK))
		ok = vrtAnd(ok, vrtImplies(f[i] == '+', plusOK))
	}
	return ok
}

// specMatch: does valid filter f match valid topic name t? Character-level
// dynamic programme; M[i][j] = f[i:] matches t[j:].
func specMatch(f, t []byte) bool {
	nf, nt := len(f), len(t)
	M := make([][]bool, nf+1)
	for i := range M {
		M[i] = make([]bool, nt+1)
	}
	for i := nf; i >= 0; i-- {
		for j := nt; j >= 0; j-- {
			if i == nf {
				M[i][j] = j == nt
				continue
			}
			c := f[i]
			// '#': everything that remains (it is the last character of a valid filter)
			isHash := c == '#'
			// '+': zero or more characters of the current level
			isPlus := c == '+'
			plus := M[i+1][j]
			lit := false
			if j < nt {
				plus = vrtOr(plus, vrtAnd(t[j] != '/', M[i][j+1]))
				lit = vrtAnd(t[j] == c, M[i+1][j+1])
			} else if i+2 == nf {
				// topic exhausted and the filter ends in "/#": '#' also matches the parent level
				lit = vrtAnd(c == '/', f[i+1] == '#')
			}
			M[i][j] = vrtOr(isHash, vrtOr(vrtAnd(isPlus, plus), vrtAnd(vrtAnd(vrtNot(isHash), vrtNot(isPlus)), lit)))
		}
	}
	return M[0][0]
}

func specMinQos(a, b byte) byte { return vrtIteByte(a < b, a, b) }

// The library's KNOWN treatment of empty levels (known finding under C06, pinned by
// TestNextTopicLevelSuccess): a leading or inner empty level of a FILTER acts as "+", a trailing empty
// level of a filter or topic name is dropped ("a/" is "a", "/" as a filter is "+"). specKnownDev* rewrite
// a name accordingly, so that "what the library does with empty levels" can be stated exactly as
// specMatch(specKnownDevFilter(f), specKnownDevTopic(t)) - and anything ELSE it might do with such names is
// still reported. (Plain Go branching on the separators: by the time these run the code under test has
// already branched on them, so the path condition decides every test.)
func specLevels(n []byte) [][]byte {
	var out [][]byte
	start := 0
	for i := 0; i < len(n); i++ {
		if n[i] == '/' {
			out = append(out, n[start:i])
			start = i + 1
		}
	}
	return append(out, n[start:])
}

func specHasEmptyLevel(n []byte) bool {
	for _, l := range specLevels(n) {
		if len(l) == 0 {
			return true
		}
	}
	return false
}

func specKnownDev(n []byte, filter bool) []byte {
	lv := specLevels(n)
	if len(lv) > 1 && len(lv[len(lv)-1]) == 0 {
		lv = lv[:len(lv)-1]
	}
	var out []byte
	for i, l := range lv {
		if i > 0 {
			out = append(out, '/')
		}
		if len(l) == 0 && filter && (i < len(lv)-1 || len(lv) < len(specLevels(n))) {
			out = append(out, '+')
		} else {
			out = append(out, l...)
		}
	}
	return out
}

func specKnownDevFilter(f []byte) []byte { return specKnownDev(f, true) }
func specKnownDevTopic(t []byte) []byte  { return specKnownDev(t, false) }
