//go:build verif

package topics

import "github.com/mdzio/go-mqtt/message"

// C06: the topic store implements MQTT matching over any history.

// vrtName: a symbolic name of 1..max bytes that does not start with '$'.
func vrtName(name string, max int) []byte {
	b := vrtBytesL(name, max)
	vrtAssume(len(b) >= 1)
	vrtAssume(b[0] != '$')
	return b
}

// vrtSubscribers queries the store the way package service does: with result
// slices that still hold the entries of an earlier query.
var vrtStale = new(int)

func vrtSubscribers(mt *MemTopics, topic []byte, p byte) ([]interface{}, []byte, error) {
	subs := []interface{}{vrtStale, vrtStale, vrtStale}
	qoss := []byte{2, 1, 0}
	err := mt.Subscribers(topic, p, &subs, &qoss)
	for _, s := range subs {
		vrtAssert("C06.no_stale_results", s != interface{}(vrtStale))
	}
	vrtAssert("C06.parallel_result_lists", len(subs) == len(qoss))
	return subs, qoss, err
}

// H06b: one subscription, one topic, everything symbolic at byte level.
func H06b_one_subscription() {
	L := vrtBound("N06len", 3)
	F := vrtName("F", L)
	T := vrtName("T", L)
	vrtAssume(specTopicValid(T))
	q, p, max := vrtByte("q"), vrtByte("p"), vrtByte("maxqos")
	vrtAssume(vrtAnd(q <= 2, vrtAnd(p <= 2, max <= 2)))
	MaxQosAllowed = max
	mt := NewMemProvider()
	sub := new(int)
	rq, err := mt.Subscribe(F, q, sub)
	valid := specFilterValid(F)
	vrtAssert("C06.subscribe_validates_filter", (err == nil) == valid)
	subs, qoss, err2 := vrtSubscribers(mt, T, p)
	vrtAssert("C06.subscribers_ok", err2 == nil)
	vrtObserve("subs", len(subs), err, err2)
	if err != nil {
		vrtAssert("C06.rejected_filter_has_no_effect", len(subs) == 0)
		return
	}
	granted := specMinQos(q, max)
	vrtAssert("C06.granted_qos", rq == granted)
	vrtAssert("C06.at_most_once", len(subs) <= 1)
	if specHasEmptyLevel(F) || specHasEmptyLevel(T) {
		// names with empty levels: the library's known treatment (known finding) - exactly that, nothing else
		vrtAssert("C06.empty_levels_exactly_the_known_deviation", (len(subs) == 1) == specMatch(specKnownDevFilter(F), specKnownDevTopic(T)))
		vrtReach("C06.empty_level_names")
	}
	match := specMatch(F, T)
	vrtAssert("C06.match_iff_spec", (len(subs) == 1) == match)
	if len(subs) == 1 {
		vrtAssert("C06.subscriber_identity", subs[0] == interface{}(sub))
		vrtAssert("C06.delivery_qos", qoss[0] == specMinQos(p, granted))
		vrtReach("C06.matched")
	} else {
		vrtReach("C06.unmatched")
	}
}

// H06a: the level splitter against the reference split.
func H06a_splitter() {
	F := vrtName("F", vrtBound("N06split", 5))
	valid := specFilterValid(F)
	// reference: first level = bytes up to the first '/', rest = after it (nil if none)
	cut := -1
	for i := len(F) - 1; i >= 0; i-- {
		cut = vrtIteInt(F[i] == '/', i, cut)
	}
	lvl, rem, err := nextTopicLevel(F)
	vrtObserve("split", len(lvl), len(rem), err)
	if !valid {
		return // errors for invalid filters may surface at this or at a later level
	}
	vrtAssert("C06.split_ok", err == nil)
	if err != nil {
		return
	}
	c := vrtConcretize(cut)
	if c == 0 {
		// a leading empty level: the library's known treatment (known finding) is to hand it over as "+" - exactly that
		vrtAssert("C06.empty_levels_exactly_the_known_deviation", vrtAnd(vrtBytesEq(lvl, []byte("+")), vrtBytesEq(rem, F[1:])))
	}
	if c < 0 {
		vrtAssert("C06.split_last_level", vrtAnd(vrtBytesEq(lvl, F), len(rem) == 0))
	} else {
		vrtAssert("C06.split_level", vrtBytesEq(lvl, F[:c]))
		vrtAssert("C06.split_rest", vrtBytesEq(rem, F[c+1:]))
	}
	vrtReach("C06.split")
}

var _ = message.QosAtMostOnce

// H06c: histories of subscribe / re-subscribe / unsubscribe by two subscribers
// over two filters, then one lookup.
func H06c_history() {
	V := vrtBound("N06levels", 2)
	K := vrtBound("N06ops", 2)
	F := [2][]byte{vrtLevelName("F0", V, true), vrtLevelName("F1", V, true)}
	if vrtBound("N06validonly", 0) == 1 {
		vrtAssume(vrtAnd(specFilterValid(F[0]), specFilterValid(F[1])))
	}
	same := vrtBytesEq(F[0], F[1])
	if same {
		vrtReach("C06.same_filter")
	}
	valid := [2]bool{specFilterValid(F[0]), specFilterValid(F[1])}
	subsv := [2]*int{new(int), new(int)}
	MaxQosAllowed = 2
	mt := NewMemProvider()
	// model: granted QoS per (subscriber, filter index); 0xff = not subscribed
	var model [2][2]byte
	for s := range model {
		for f := range model[s] {
			model[s][f] = 0xff
		}
	}
	for i := 0; i < K; i++ {
		// symmetry: the first operation is "subscriber 0 subscribes to F0"
		op, s, f := 0, 0, 0
		if i > 0 {
			op = vrtChoice("op", 2)
			s = vrtChoice("s", 2)
			f = vrtChoice("f", 2)
		}
		mf := f
		if same {
			mf = 0
		}
		if op == 0 {
			q := vrtByte("q")
			vrtAssume(q <= 2)
			_, err := mt.Subscribe(F[f], q, subsv[s])
			vrtAssert("C06.history_subscribe_validates", (err == nil) == valid[f])
			if err == nil {
				model[s][mf] = q
			}
		} else {
			mt.Unsubscribe(F[f], subsv[s])
			if valid[f] {
				model[s][mf] = 0xff
			}
		}
	}
	T := vrtLevelName("T", V, false)
	p := vrtByte("p")
	vrtAssume(p <= 2)
	subs, qoss, err := vrtSubscribers(mt, T, p)
	vrtAssert("C06.history_subscribers_ok", err == nil)
	match := [2]bool{vrtAnd(valid[0], specMatch(F[0], T)), vrtAnd(valid[1], specMatch(F[1], T))}
	for s := 0; s < 2; s++ {
		// what the store reported for this subscriber
		var got []byte
		for i := range subs {
			if subs[i] == interface{}(subsv[s]) {
				got = append(got, qoss[i])
			}
		}
		in0 := vrtAnd(model[s][0] != 0xff, match[0])
		in1 := vrtAnd(model[s][1] != 0xff, match[1])
		e0, e1 := specMinQos(p, model[s][0]), specMinQos(p, model[s][1])
		want := vrtIteInt(in0, 1, 0) + vrtIteInt(in1, 1, 0)
		vrtAssert("C06.history_count", len(got) == want)
		switch len(got) {
		case 1:
			vrtAssert("C06.history_qos", got[0] == vrtIteByte(in0, e0, e1))
		case 2:
			vrtAssert("C06.history_qos", vrtOr(vrtAnd(got[0] == e0, got[1] == e1), vrtAnd(got[0] == e1, got[1] == e0)))
			vrtReach("C06.two_matching_subscriptions")
		}
	}
	vrtAssert("C06.history_no_strangers", len(subs) <= 4)
	vrtObserve("hist", len(subs)) // (the order of the list depends on map iteration: not observed)
	vrtReach("C06.history")
}

func vrtPub(topic, payload []byte, qos byte) *message.PublishMessage {
	m := message.NewPublishMessage()
	m.SetTopic(topic)
	m.SetPayload(payload)
	m.SetQoS(qos)
	m.SetRetain(true)
	return m
}

// H06d: retained store: last non-empty message per topic, cleared by an empty one.
func H06d_retained() {
	V := vrtBound("N06levels", 2)
	K := vrtBound("N06rops", 3)
	T := [2][]byte{vrtLevelName("T0", V, false), vrtLevelName("T1", V, false)}
	same := vrtBytesEq(T[0], T[1])
	mt := NewMemProvider()
	var have [2]bool
	var pay [2][]byte
	var qos [2]byte
	// 1..K operations (a fixed count hides what only shows when nothing follows: round-7 change C06-13 needs
	// "store on a/b, clear a, look up" with no third operation that moves its counter away from zero again)
	K = 1 + vrtChoice("nops", K)
	for i := 0; i < K; i++ {
		// symmetry: the first operation stores a non-empty message on T0
		t := 0
		if i > 0 {
			t = vrtChoice("t", 2)
		}
		mt2 := t
		if same {
			mt2 = 0
		}
		payload := vrtBytesL("payload", 1)
		if i == 0 {
			vrtAssume(len(payload) == 1)
		}
		q := vrtByte("q")
		vrtAssume(q <= 2)
		err := mt.Retain(vrtPub(T[t], payload, q))
		if len(payload) == 0 {
			have[mt2] = false
			vrtReach("C06.retained_clear")
		} else {
			vrtAssert("C06.retained_store_ok", err == nil)
			have[mt2], pay[mt2], qos[mt2] = true, payload, q
		}
		// the caller may reuse its buffers
		for j := range payload {
			payload[j] ^= 0xff
		}
	}
	F := vrtLevelName("F", V, true)
	vrtAssume(specFilterValid(F))
	var msgs []*message.PublishMessage
	err := mt.Retained(F, &msgs)
	vrtAssert("C06.retained_lookup_ok", err == nil)
	want := 0
	for t := 0; t < 2; t++ {
		if !have[t] {
			continue
		}
		m := vrtConcretize(vrtIteInt(specMatch(F, T[t]), 1, 0))
		if m == 0 {
			continue
		}
		want++
		found := 0
		for _, r := range msgs {
			if vrtBytesEq(r.Topic(), T[t]) {
				found++
				// stored payload was XOR-ed back by the harness: compare with the original value
				orig := make([]byte, len(pay[t]))
				for j := range orig {
					orig[j] = pay[t][j] ^ 0xff
				}
				vrtAssert("C06.retained_payload_intact", vrtBytesEq(r.Payload(), orig))
				vrtAssert("C06.retained_qos", r.QoS() == qos[t])
			}
		}
		vrtAssert("C06.retained_present_once", found == 1)
	}
	vrtAssert("C06.retained_count", len(msgs) == want)
	vrtObserve("retained", len(msgs), want)
	vrtReach("C06.retained")
}

// H06c_prune: subscribe two (subscriber, filter) pairs, unsubscribe one of
// them, look up: the pruning path of the trie with a surviving sibling.
func H06c_prune() {
	V := vrtBound("N06levels", 2)
	F := [2][]byte{vrtLevelName("F0", V, true), vrtLevelName("F1", V, true)}
	vrtAssume(vrtAnd(specFilterValid(F[0]), specFilterValid(F[1])))
	vrtAssume(vrtNot(vrtBytesEq(F[0], F[1])))
	subsv := [2]*int{new(int), new(int)}
	MaxQosAllowed = 2
	mt := NewMemProvider()
	q0, q1 := vrtByte("q0"), vrtByte("q1")
	vrtAssume(vrtAnd(q0 <= 2, q1 <= 2))
	_, e0 := mt.Subscribe(F[0], q0, subsv[0])
	_, e1 := mt.Subscribe(F[1], q1, subsv[vrtChoice("s1", 2)])
	vrtAssert("C06.history_subscribe_validates", vrtAnd(e0 == nil, e1 == nil))
	vrtAssert("C06.history_unsubscribe_ok", mt.Unsubscribe(F[0], subsv[0]) == nil)
	T := vrtLevelName("T", V, false)
	p := vrtByte("p")
	vrtAssume(p <= 2)
	subs, qoss, err := vrtSubscribers(mt, T, p)
	vrtAssert("C06.history_subscribers_ok", err == nil)
	m1 := specMatch(F[1], T)
	vrtAssert("C06.history_count", len(subs) == vrtIteInt(m1, 1, 0))
	if len(subs) == 1 {
		vrtAssert("C06.history_qos", qoss[0] == specMinQos(p, q1))
		vrtReach("C06.survivor_matched")
	}
	vrtObserve("prune", len(subs))
}

// H06c_three: three subscribers on one filter with their own QoS; one of them
// leaves; the others keep their own QoS.
func H06c_three() {
	F := vrtLevelName("F", vrtBound("N06levels", 2), true)
	vrtAssume(specFilterValid(F))
	subsv := [3]*int{new(int), new(int), new(int)}
	var q [3]byte
	MaxQosAllowed = 2
	mt := NewMemProvider()
	for i := range subsv {
		q[i] = vrtByte("q")
		vrtAssume(q[i] <= 2)
		_, err := mt.Subscribe(F, q[i], subsv[i])
		vrtAssert("C06.history_subscribe_validates", err == nil)
	}
	gone := vrtChoice("leaves", 3)
	vrtAssert("C06.history_unsubscribe_ok", mt.Unsubscribe(F, subsv[gone]) == nil)
	T := vrtLevelName("T", vrtBound("N06levels", 2), false)
	p := vrtByte("p")
	vrtAssume(p <= 2)
	subs, qoss, err := vrtSubscribers(mt, T, p)
	vrtAssert("C06.history_subscribers_ok", err == nil)
	m := vrtConcretize(vrtIteInt(specMatch(F, T), 1, 0))
	vrtAssert("C06.history_count", len(subs) == 2*m)
	for i := range subs {
		for k := range subsv {
			if subs[i] == interface{}(subsv[k]) {
				vrtAssert("C06.history_no_strangers", k != gone)
				vrtAssert("C06.history_qos", qoss[i] == specMinQos(p, q[k]))
			}
		}
	}
	vrtObserve("three", len(subs))
	vrtReach("C06.three")
}

// H06c_rejected: a Subscribe that is refused (filter invalid at its second,
// third or fourth level, its valid prefix running through existing nodes)
// changes nothing: the subscriptions of others below that prefix stay, and can
// still be removed afterwards.
func H06c_rejected() {
	MaxQosAllowed = 2
	mt := NewMemProvider()
	s1, s2, s3 := new(int), new(int), new(int)
	q1, q2 := vrtByte("q1"), vrtByte("q2")
	vrtAssume(vrtAnd(q1 <= 2, q2 <= 2))
	_, e1 := mt.Subscribe([]byte("a/b"), q1, s1)
	_, e2 := mt.Subscribe([]byte("a/c/d"), q2, s2)
	vrtAssert("C06.history_subscribe_validates", e1 == nil && e2 == nil)
	bad := [][]byte{[]byte("a/b#"), []byte("a/+x"), []byte("a/#/c"), []byte("a/c/d#"), []byte("a/c/#/e"), []byte("a/c/d/e+"), []byte("a/b/#/f")}
	B := bad[vrtChoice("bad", len(bad))]
	vrtAssert("C06.harness_filter_is_invalid", !specFilterValid(B))
	_, e3 := mt.Subscribe(B, 1, s3)
	vrtAssert("C06.history_subscribe_validates", e3 != nil)
	subs, qoss, err := vrtSubscribers(mt, []byte("a/b"), 2)
	vrtAssert("C06.rejected_subscribe_changes_nothing", err == nil && len(subs) == 1)
	if len(subs) == 1 {
		vrtAssert("C06.rejected_subscribe_changes_nothing", vrtAnd(subs[0] == interface{}(s1), qoss[0] == q1))
	}
	subs, qoss, err = vrtSubscribers(mt, []byte("a/c/d"), 2)
	vrtAssert("C06.rejected_subscribe_changes_nothing", err == nil && len(subs) == 1)
	if len(subs) == 1 {
		vrtAssert("C06.rejected_subscribe_changes_nothing", vrtAnd(subs[0] == interface{}(s2), qoss[0] == q2))
	}
	vrtAssert("C06.unsubscribe_after_rejected", mt.Unsubscribe([]byte("a/b"), s1) == nil && mt.Unsubscribe([]byte("a/c/d"), s2) == nil)
	subs, _, _ = vrtSubscribers(mt, []byte("a/c/d"), 2)
	vrtAssert("C06.history_count", len(subs) == 0)
	vrtReach("C06.rejected")
}

// H06c_remove_all: Unsubscribe with a nil subscriber removes ALL subscribers of
// a filter (the form the client side uses); the node survives because a deeper
// filter is still subscribed; a subscription made afterwards has its own QoS.
func H06c_remove_all() {
	MaxQosAllowed = 2
	mt := NewMemProvider()
	s1, s2, s3, deep := new(int), new(int), new(int), new(int)
	q1, q2, q3 := vrtByte("q1"), vrtByte("q2"), vrtByte("q3")
	vrtAssume(vrtAnd(q1 <= 2, vrtAnd(q2 <= 2, q3 <= 2)))
	F := []byte("a")
	withDeeper := vrtBool("deeper_filter_keeps_the_node")
	if withDeeper {
		mt.Subscribe([]byte("a/b"), 1, deep)
	}
	mt.Subscribe(F, q1, s1)
	mt.Subscribe(F, q2, s2)
	vrtAssert("C06.remove_all_ok", mt.Unsubscribe(F, nil) == nil)
	subs, _, err := vrtSubscribers(mt, F, 2)
	vrtAssert("C06.history_count", err == nil && len(subs) == 0)
	mt.Subscribe(F, q3, s3)
	subs, qoss, err := vrtSubscribers(mt, F, 2)
	vrtAssert("C06.history_count", err == nil && len(subs) == 1)
	if len(subs) == 1 {
		vrtAssert("C06.history_qos", vrtAnd(subs[0] == interface{}(s3), qoss[0] == q3))
	}
	if withDeeper {
		subs, qoss, err = vrtSubscribers(mt, []byte("a/b"), 2)
		vrtAssert("C06.history_count", err == nil && len(subs) == 1)
		if len(subs) == 1 {
			vrtAssert("C06.history_qos", vrtAnd(subs[0] == interface{}(deep), qoss[0] == 1))
		}
	}
	vrtReach("C06.remove_all")
}

// H06e_deep: three-level names (the histories above stop at two levels, the byte-level harness at three
// or four bytes, i.e. "a/+" or "+/#"): one or two retained messages on topics of 1..3 levels and a
// filter of 1..3 levels ("x/+/#" with a message retained exactly on "x" is the round-7 change C06-14),
// and the same pair as one subscription and one publish. Oracle: section 4.7 matching.
func H06e_deep_retained() {
	T := [2][]byte{vrtLevelName("T0", 3, false), vrtLevelName("T1", 3, false)}
	mt := NewMemProvider()
	n := 1 + vrtChoice("ntopics", 2)
	if n == 2 {
		vrtAssume(!vrtBytesEq(T[0], T[1]))
	}
	for i := 0; i < n; i++ {
		vrtAssert("C06.retained_store_ok", mt.Retain(vrtPub(T[i], []byte{byte('p' + i)}, 1)) == nil)
	}
	F := vrtLevelName("F", 3, true)
	vrtAssume(specFilterValid(F))
	var msgs []*message.PublishMessage
	vrtAssert("C06.retained_lookup_ok", mt.Retained(F, &msgs) == nil)
	want := 0
	for i := 0; i < n; i++ {
		m := vrtConcretize(vrtIteInt(specMatch(F, T[i]), 1, 0))
		found := 0
		for _, r := range msgs {
			if vrtBytesEq(r.Topic(), T[i]) {
				found++
			}
		}
		vrtAssert("C06.deep_retained_exactly_the_matching", found == m)
		want += m
	}
	vrtAssert("C06.deep_retained_count", len(msgs) == want)
	if want > 0 {
		vrtReach("C06.deep_retained_matched")
	}
}

func H06e_deep_subscription() {
	F := vrtLevelName("F", 3, true)
	vrtAssume(specFilterValid(F))
	T := vrtLevelName("T", 3, false)
	mt := NewMemProvider()
	type sub struct{ x int }
	s1, s2 := &sub{1}, &sub{2}
	q, err := mt.Subscribe(F, 1, s1)
	vrtAssert("C06.deep_subscribe_ok", vrtAnd(err == nil, q == 1))
	// a second subscriber on a fixed sibling filter must not disturb the first
	_, err = mt.Subscribe([]byte("zz/+"), 2, s2)
	vrtAssert("C06.deep_subscribe_ok", err == nil)
	var subs []interface{}
	var qoss []byte
	vrtAssert("C06.deep_lookup_ok", mt.Subscribers(T, 2, &subs, &qoss) == nil)
	m := vrtConcretize(vrtIteInt(specMatch(F, T), 1, 0))
	m2 := vrtConcretize(vrtIteInt(specMatch([]byte("zz/+"), T), 1, 0))
	c1, c2 := 0, 0
	for i, x := range subs {
		if x == interface{}(s1) {
			c1++
			vrtAssert("C06.deep_qos", qoss[i] == 1)
		}
		if x == interface{}(s2) {
			c2++
		}
	}
	vrtAssert("C06.deep_exactly_the_matching", vrtAnd(c1 == m, c2 == m2))
	vrtAssert("C06.deep_count", len(subs) == m+m2)
	if m > 0 {
		vrtReach("C06.deep_matched")
	}
	// unsubscribing removes it again
	vrtAssert("C06.deep_unsubscribe_ok", mt.Unsubscribe(F, s1) == nil)
	subs, qoss = subs[:0], qoss[:0]
	vrtAssert("C06.deep_lookup_ok", mt.Subscribers(T, 2, &subs, &qoss) == nil)
	vrtAssert("C06.deep_gone_after_unsubscribe", len(subs) == m2)
}

// H06f_branches: three or four subscriptions whose filters share levels, so that several branches of the
// trie stay alive side by side while a three-level topic is matched (round-8 change C06-15: a matcher
// that keeps the live branches in a fixed-size frontier is right for one or two of them). Filters are
// a subset of eleven shapes over the literals a / b / c, '+' and a trailing '#'; the topic's levels
// are symbolic bytes, so the solver decides which literals they equal.
func H06f_branches() {
	shapes := []string{"a/b/c", "+/b/c", "a/+/c", "a/b/+", "+/+/c", "+/b/+", "a/+/+", "+/+/+", "a/b/#", "a/#", "+/+/#"}
	MaxQosAllowed = 2
	mt := NewMemProvider()
	type sub struct{ x int }
	var subsv []*sub
	var filters [][]byte
	for i, s := range shapes {
		if vrtBool("with." + s) {
			su := &sub{i}
			subsv = append(subsv, su)
			filters = append(filters, []byte(s))
			if len(filters) > 4 {
				return
			}
		}
	}
	if len(filters) < 3 {
		return
	}
	for i, f := range filters {
		q, err := mt.Subscribe(f, byte(i%3), subsv[i])
		vrtAssert("C06.branches_subscribe_ok", vrtAnd(err == nil, q == byte(i%3)))
	}
	nl := 2 + vrtChoice("W.levels", 2)
	var T []byte
	for i := 0; i < nl; i++ {
		if i > 0 {
			T = append(T, '/')
		}
		c := vrtByte("W.lit")
		vrtAssume(vrtAnd(vrtAnd(c != '/', c != '+'), vrtAnd(c != '#', c != '$')))
		T = append(T, c)
	}
	subs, qoss, err := vrtSubscribers(mt, T, 2)
	vrtAssert("C06.branches_lookup_ok", err == nil)
	want := 0
	for i, f := range filters {
		m := vrtConcretize(vrtIteInt(specMatch(f, T), 1, 0))
		got := 0
		for k, x := range subs {
			if x == interface{}(subsv[i]) {
				got++
				vrtAssert("C06.branches_qos", qoss[k] == byte(i%3))
			}
		}
		vrtAssert("C06.branches_exactly_the_matching", got == m)
		want += m
	}
	vrtAssert("C06.branches_count", len(subs) == want)
	if want >= 3 {
		vrtReach("C06.three_branches_match")
	}
	vrtReach("C06.branches")
}

// H06f_wide_node: a node with eleven children (nine literal levels, '+' and '#'), at the root or one
// level down, and a topic whose level at that node is symbolic - possibly one of the nine, possibly
// EMPTY (round-8 change C01-15: a by-key lookup for nodes with many children that probes '+' and the
// level itself reports the '+' child twice for an empty level, which the splitter hands over as "+").
// None of the filters has an empty level and the topic has no trailing one, so section 4.7 and the
// library's known treatment of empty levels (C06 known finding) agree on every pair used here: an empty
// level is matched by '+' and '#' and by no literal.
func H06f_wide_node() {
	MaxQosAllowed = 2
	mt := NewMemProvider()
	type sub struct{ x int }
	prefix := ""
	if vrtBool("one_level_down") {
		prefix = "r/"
	}
	var filters [][]byte
	var subsv []*sub
	add := func(f string) {
		su := &sub{len(subsv)}
		_, err := mt.Subscribe([]byte(prefix+f), 1, su)
		vrtAssert("C06.wide_subscribe_ok", err == nil)
		filters = append(filters, []byte(prefix+f))
		subsv = append(subsv, su)
	}
	for i := 0; i < 9; i++ {
		add("k" + string(rune('0'+i)))
	}
	add("+")
	add("+/z")
	if vrtBool("with_hash") {
		add("#")
	}
	// the topic: prefix, then a level that is empty or two symbolic bytes, then optionally "/z"
	W := []byte(prefix)
	if !vrtBool("W.empty_level") {
		c0, c1 := vrtByte("W.c0"), vrtByte("W.c1")
		for _, c := range []byte{c0, c1} {
			vrtAssume(vrtAnd(vrtAnd(c != '/', c != '+'), vrtAnd(c != '#', c != '$')))
		}
		W = append(W, c0, c1)
	}
	if vrtBool("W.deeper") {
		W = append(W, '/', 'z')
	}
	if len(W) == 0 || W[len(W)-1] == '/' {
		return // no name at all / a trailing empty level: outside this harness
	}
	subs, qoss, err := vrtSubscribers(mt, W, 2)
	vrtAssert("C06.wide_lookup_ok", err == nil)
	want := 0
	for i, f := range filters {
		m := vrtConcretize(vrtIteInt(specMatch(f, W), 1, 0))
		got := 0
		for k, x := range subs {
			if x == interface{}(subsv[i]) {
				got++
				vrtAssert("C06.wide_qos", qoss[k] == 1)
			}
		}
		vrtAssert("C06.wide_at_most_once", got <= 1)
		vrtAssert("C06.wide_exactly_the_matching", got == m)
		want += m
	}
	vrtAssert("C06.wide_count", len(subs) == want)
	vrtReach("C06.wide")
}
