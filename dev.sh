#!/bin/bash
# dev.sh <pkg> <run-regex> [gosmt flags...]: one engine run on /repo (or $VERIF_REPO) for harness development; prints a summary
export GOFLAGS=-mod=mod GOPROXY=off GOSUMDB=off GOTOOLCHAIN=local
pkg=$1; run=$2; shift 2
V=$(cd "$(dirname "$0")" && pwd)
extra=$V/harness/rt/rt.go,$(ls $V/harness/spec/*.go | tr '\n' ',' | sed 's/,$//')
out=/tmp/dev-$$.json
$V/bin/gosmt run -repo ${VERIF_REPO:-/repo} -pkg $pkg -harnessdir $V/harness/$pkg -extra $extra -run "$run" -out $out "$@" 2>/tmp/dev-$$.err
rc=$?
tail -5 /tmp/dev-$$.err
python3 - $out <<'PY'
import json,sys
try: r=json.load(open(sys.argv[1]))
except Exception as e: print("no result", e); sys.exit()
for h in r.get("harnesses",[]):
    print(h.get("harness"), "paths=%s obl=%s/%s wall=%.1fs"%(h.get("paths"),h.get("discharged"),h.get("obligations"),h.get("wall_seconds",0)), "reach=",h.get("reached"), "inconcl=", (h.get("inconclusive") or [])[:3])
    seen=set()
    for v in (h.get("violations") or []):
        k=(v.get("kind"),v.get("name"))
        if k in seen: continue
        seen.add(k)
        print("   VIOL", v.get("kind"), v.get("name"), {k2:v2 for k2,v2 in list((v.get("model") or {}).items())[:14]})
PY
rm -f $out /tmp/dev-$$.err
exit $rc
