#!/usr/bin/env python3
"""Regenerates MANIFEST.json from checks.py (claimed checks) and properties.jsonl (the rest -> not_applicable)."""
import json, sys, os
sys.path.insert(0, os.path.dirname(os.path.abspath(__file__)))
from checks import CHECKS, NOT_APPLICABLE
props = [json.loads(l)["id"] for l in open("/verif/properties.jsonl")]
TECH = "bounded symbolic execution of the real code (go/ssa -> SMT-LIB2, z3): every feasible path within the stated bounds, obligations decided by the solver, counterexamples and explored paths replayed natively"
m = {
    "version": 1,
    "setup_cmd": "cd /verif/engine && GOFLAGS=-mod=mod GOPROXY=off GOSUMDB=off GOTOOLCHAIN=local go build -o /verif/bin/gosmt .",
    "hooks": {"guard": "verif",
              "enable": "no hook is committed to /repo: harnesses (/verif/harness/<pkg>/*.go, //go:build verif), the vrt runtime and the reference models are injected as in-package files through go/packages Overlay (engine) and `go test -tags verif -overlay` (native replay)",
              "baseline_off_cmd": "cd /repo && GOFLAGS=-mod=mod GOPROXY=off go test -vet=off -count=1 -timeout 25m ./...",
              "source_commits": [], "add_only": True},
    "engines": [{"name": "gosmt", "path": "/verif/engine", "serves_properties": sorted(CHECKS),
                 "kind_free_text": "own go/ssa symbolic executor: concrete heap, symbolic scalars/bytes as SMT bit-vector terms, forking by re-execution with a decision prefix, interpreter threads with canonical / preemption-bounded schedulers, happens-before race detection; z3 -in (push/pop); driver ./vcheck does native replay, translator validation, known-findings matching and evidence"}],
    "checks": [], "not_applicable": [],
    "notes": "exit 0 = all obligations discharged within the stated bounds (KNOWN-FINDING lines allowed); exit 1 = natively confirmed violation (VIOLATION line); exit 2 = INCONCLUSIVE (never reported as success). Bounds per tier are stated in checks.py and echoed into every evidence file.",
}
for pid in props:
    if pid in CHECKS:
        c = CHECKS[pid]
        m["checks"].append({
            "property_id": pid,
            "quick_cmd": "./vcheck %s --tier quick" % pid,
            "thorough_cmd": "./vcheck %s --tier thorough" % pid,
            "evidence_file": "/verif/evidence/%s.json" % pid,
            "replay_cmd_template": "./vcheck replay {path}",
            "engine": "gosmt",
            "level_claimed": {"category": "model_checking", "text": c["level_text"], "design_ref": c.get("design_ref", "DESIGN.md section 5, " + pid)},
            "level_note": c["level_note"],
            "technique": c.get("technique", TECH),
        })
    else:
        m["not_applicable"].append({"property_id": pid, "reason": NOT_APPLICABLE.get(pid, "check not built yet (work in progress; see DESIGN.md section 5)")})
json.dump(m, open("/verif/MANIFEST.json", "w"), indent=1)
print("claimed:", [c["property_id"] for c in m["checks"]])
