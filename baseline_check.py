#!/usr/bin/env python3
"""Runs the 131 pinned baseline tests (by name, per package) against /repo and reports any that do not pass."""
import json, os, subprocess, sys
ENV = dict(os.environ, GOFLAGS="-mod=mod", GOPROXY="off", GOSUMDB="off", GOTOOLCHAIN="local")
repo = sys.argv[1] if len(sys.argv) > 1 else "/repo"
base = json.load(open("/root/.vp/BASELINE.json"))["stable_pass"]
bypkg = {}
for t in base:
    pkg, name = t.split("::")
    bypkg.setdefault(pkg.replace("github.com/mdzio/go-mqtt/", ""), []).append(name)
missing = []
for pkg, names in bypkg.items():
    r = subprocess.run("go test -vet=off -count=1 -json -run '^(%s)$' ./%s" % ("|".join(names), pkg), shell=True, cwd=repo, env=ENV, text=True, stdout=subprocess.PIPE, stderr=subprocess.STDOUT)
    passed = set()
    for l in r.stdout.splitlines():
        try:
            j = json.loads(l)
        except Exception:
            continue
        if j.get("Action") == "pass" and j.get("Test"):
            passed.add(j["Test"])
    missing += [pkg + "::" + n for n in names if n not in passed]
print("baseline: %d/%d pass" % (len(base) - len(missing), len(base)))
for m in missing:
    print("MISSING", m)
sys.exit(1 if missing else 0)
