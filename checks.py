# Per-property check specifications used by ./vcheck.
# groups: engine runs (package, harness regexp, engine flags per tier, vacuity witnesses).

COMMON_ASSUMPTIONS = [
    "symbolic execution of go/ssa built from /repo's current working tree (rebuilt on every run); the SSA builder (x/tools v0.29.0) and the engine's instruction semantics are trusted, and cross-checked on every run by re-running each explored path's solver model through the natively compiled code (translator validation)",
    "z3 4.8.12 decides every feasibility query and obligation; unknown / error / timeout makes the run INCONCLUSIVE",
    "append growth follows a doubling policy; map iteration in insertion order (and reverse order where a check says so)",
    "a violation is reported only after the solver's counterexample reproduced against the native build (go test -overlay)",
]

CHECKS = {
    "C04": {
        "groups": [
            {"pkg": "message", "run": "H04_.*",
             "flags": {"common": ["-unwind", "40"],
                       "quick": ["-bounds", "N04=10,N04suback=7,N04connect=18"],
                       "thorough": ["-bounds", "N04=16,N04suback=10,N04connect=26"]},
             "reach": ["C04.returned"]},
        ],
        "bounds": {"quick": "input length 0..10 bytes (SUBACK 0..7, CONNECT 0..18), all byte values, cap==len",
                   "thorough": "input length 0..16 bytes (SUBACK 0..10, CONNECT 0..26), all byte values, cap==len"},
        "outside": ["inputs longer than the bound (length arithmetic for long packets is covered by C03's header/length harnesses)"],
        "assumptions": [],
    },
}
