# Per-property check specifications used by ./vcheck.
# groups: engine runs (package, harness regexp, engine flags per tier, vacuity witnesses).

COMMON_ASSUMPTIONS = [
    "symbolic execution of go/ssa built from /repo's current working tree (rebuilt on every run); the SSA builder (x/tools v0.29.0) and the engine's instruction semantics are trusted, and cross-checked on every run by re-running each explored path's solver model through the natively compiled code (translator validation)",
    "z3 4.8.12 decides every feasibility query and obligation; unknown / error / timeout makes the run INCONCLUSIVE",
    "append growth follows a doubling policy; map iteration in insertion order (and reverse order where a check says so)",
    "a violation is reported only after the solver's counterexample reproduced against the native build (go test -overlay)",
]

NOT_APPLICABLE = {
}

CHECKS = {
    "C03": {
        "level_text": "every path of the real encoders/decoders (message package SSA) for all field values / input bytes within the byte bounds is executed symbolically against a reference codec written from the standard; length arithmetic of the fixed header for all 2^32 values; packet-id allocation as one inductive step from an arbitrary counter. Bounded model checking: complete inside the bounds, silent outside. Every encode harness runs with and without a Len() call before Encode.",
        "level_note": "trusted: go/ssa + engine semantics (cross-checked natively on every explored path), z3, the reference codec (harness/spec/speccodec.go); strings/payloads longer than the bounds are outside the claim",
        "groups": [
            {"pkg": "message", "run": "H03a_.*|H03d_.*|H03g_.*", "flags": {"common": ["-unwind", "40"]}},
            {"pkg": "message", "run": "H03b_.*",
             "flags": {"common": ["-unwind", "40"],
                       "quick": ["-bounds", "N03str=2,N03payload=3,N03topics=3,N03utopics=4,N03codes=4"],
                       "thorough": ["-bounds", "N03str=3,N03payload=6,N03topics=4,N03utopics=5,N03codes=6"]},
             "reach": ["C03.roundtrip"]},
            {"pkg": "message", "run": "H03c_.*",
             "flags": {"common": ["-unwind", "40"],
                       "quick": ["-bounds", "N03c=9,N03csub=12,N03csuback=7,N03cconnect=18"],
                       "thorough": ["-bounds", "N03c=14,N03csub=17,N03csuback=9,N03cconnect=24"]},
             "reach": ["C03.accepted", "C03.wellformed"]},
            {"pkg": "message", "run": "H03f_.*",
             "flags": {"common": ["-unwind", "40"],
                       "quick": ["-bounds", "N03f=10"],
                       "thorough": ["-bounds", "N03f=14"]}},
            {"pkg": "message", "run": "H03e_.*",
             "flags": {"common": ["-unwind", "5000000", "-maxsteps", "400000000"],
                       "quick": [],
                       "thorough": ["-bounds", "N03huge=1"]},
             "reach": ["C03.roundtrip"], "reach_for": "H03e_.*boundary"},
        ],
        "bounds": {"quick": "header: all 2^32 remaining-length values x 14 types; setters->encode->decode: strings <= 2 bytes, payload <= 3, <= 3 SUBSCRIBE / 4 UNSUBSCRIBE filters, <= 4 return codes; decode->encode: every accepted exact frame of <= 9 bytes (CONNECT 18, (UN)SUBSCRIBE 12, SUBACK 7); automatic ids: every value of the 64-bit counter; boundary sizes with concrete contents: remaining length 127/128/16383/16384 for PUBLISH, SUBACK, SUBSCRIBE, UNSUBSCRIBE, CONNECT, length-prefixed strings of 0/1/65534/65535 bytes",
                   "thorough": "as quick with strings <= 3, payload <= 6, 4/5 filters, 6 codes; frames <= 14 bytes (CONNECT 24, (UN)SUBSCRIBE 17, SUBACK 9); PUBLISH also at remaining length 2097151/2097152"},
        "outside": ["symbolic string/payload contents beyond the byte bounds (the boundary-size harnesses H03e use concrete contents; the remaining-length arithmetic is covered for all values by H03a_header)", "remaining lengths at the 4-byte limit (2^28-1)",
                    "more topic filters per packet than the bound",
                    "CONNECT with user-name/password flag set and zero-length value (library documents 3.1 leniency): don't-care for the field-based re-encoding"],
        "assumptions": ["oracle: reference codec harness/spec/speccodec.go written from MQTT 3.1.1 sections 2-3 (no code shared with the library)"],
    },
    "C05": {
        "level_text": "the real broker with two witness subscribers and a witness publisher; an offender that was accepted first (and is a co-subscriber of the witnesses' topic) sends an arbitrary byte string and is cut at whatever point the string ends; a second harness feeds arbitrary bytes in arbitrary chunking before any CONNECT; a third lets the offender carry an arbitrary (possibly invalid) will topic and drop; further scenarios: a final PUBLISH delivered together with the end of the stream, every length-consistent truncation of a full CONNECT as first packet, and an offender that stops reading until a witness publisher is blocked in its full ring and is then cut (drop, keep-alive expiry, protocol error). Obligations: no panic escapes any goroutine (crash event), no allocation above the MQTT packet limit, at most the offender is closed, and the witnesses see exactly one copy at the right QoS before, during and after and stay connected.",
        "level_note": "canonical schedule; of the timings of a teardown against deliveries addressed to the dying connection, the one forced by the topic-store hook (delivery during the unsubscribe of stop()) is run with the race detector, others are outside; TLS/websocket front ends outside; offender bytes cannot contain the witnesses' topic byte",
        "max_validate": {"quick": 100, "thorough": 300},
        "groups": [
            {"pkg": "service", "run": "H05_.*",
             "flags": {"common": ["-unwind", "64"], "quick": ["-bounds", "N05=4,N05pre=6"], "thorough": ["-bounds", "N05=6,N05pre=10"]},
             "reach": []},
            {"pkg": "service", "run": "H05s_.*", "flags": {"common": ["-unwind", "100000"]}, "reach": ["C05.survived_stalled_cut"]},
            # a client that subscribes to a retained message at a lower QoS and leaves does not change what later
            # subscribers receive (see C08: publish, subscribe, subscribe)
            {"pkg": "service", "run": "H08_.*", "flags": {"common": ["-unwind", "64", "-bounds", "N08levels=1,N08ops=3,N08fixed=2"]}, "reach": ["C08.retained_delivered"]},
            # a malformed filter in one client's SUBSCRIBE leaves the other clients' subscriptions alone (see C06)
            {"pkg": "topics", "run": "H06c_rejected", "flags": {"common": ["-unwind", "40"]}, "reach": ["C06.rejected"]},
            # a subscriber that cannot be delivered to (broken write side, failing callback) does not cut the fan-out short (see C01)
            {"pkg": "service", "run": "H01_failing_subscriber", "flags": {"common": ["-unwind", "64"]}, "reach": ["C01.failing_subscriber"]},
            # a publish addressed to a connection while its teardown is unsubscribing it (interleaving forced by a
            # hook on the topic store), with the happens-before race detector (see C18)
            {"pkg": "service", "run": "H18_teardown_delivery|H18_teardown_after_delivery",
             "flags": {"common": ["-unwind", "64", "-race"]}, "reach": []},
            # a client that keeps many QoS 2 publishes unreleased makes its session's queue grow (possibly while wrapped):
            # that must stay confined to its own queue and never index out of range (step lemma of C13)
            {"pkg": "sessions", "run": "H13_wait|H13_acked",
             "flags": {"common": ["-unwind", "40"], "quick": ["-bounds", "N13logsizes=2,N13ops=4"], "thorough": ["-bounds", "N13logsizes=2,N13ops=4"]},
             "reach": []},
            # the queue at a session's real size with 17..260 requests in flight after 0..17 completed ones (growth while wrapped at 16..256 slots)
            {"pkg": "sessions", "run": "H13p_many", "flags": {"common": ["-unwind", "1000"]}, "reach": ["C13.many"]},
        ],
        "bounds": {"quick": "offender bytes after CONNECT: any 0..4 bytes; before CONNECT: any 0..6 bytes in two chunks; will topic any 0..2 bytes", "thorough": "0..6 / 0..10 bytes"},
        "outside": ["longer garbage", "teardown racing with deliveries (schedules)", "resource exhaustion other than one allocation's size"],
        "assumptions": [],
    },
    "C06": {
        "level_text": "the real MemTopics code (Subscribe/Unsubscribe/Subscribers/Retain/Retained, the trie and nextTopicLevel) is executed symbolically: byte-level filter x topic pairs with every byte a solver variable (all malformed filters included), and level-structured histories whose literal values and coincidences are the solver's choice; oracle = section 4.7 matching as a branch-free dynamic programme. Complete inside the bounds. Queries pass result slices that still hold an earlier answer (as package service does); a refused Subscribe (filter invalid at level 2..4 over existing nodes) must change nothing. Width and depth: 3..4 subscriptions on overlapping three-level filters with a symbolic three-level topic, a node with eleven children and a topic level that may be empty; for names with empty levels the library's known treatment (known finding) is stated exactly and asserted under a name the known-findings entry does not cover.",
        "level_note": "trusted: engine + z3 + the matching oracle (harness/spec/specnames.go); map iteration order = insertion order (reverse order in the thorough tier); subscribers are pointer values; names longer / histories deeper than the bounds are outside the claim",
        "groups": [
            {"pkg": "topics", "run": "H06a_.*|H06b_.*",
             "flags": {"common": ["-unwind", "40"],
                       "quick": ["-bounds", "N06len=3,N06split=5"],
                       "thorough": ["-bounds", "N06len=4,N06split=7"]},
             "reach": ["C06.matched", "C06.unmatched"], "reach_for": "H06b_.*"},
            {"pkg": "topics", "run": "H06c_.*|H06d_.*|H06e_.*",
             "flags": {"common": ["-unwind", "40"],
                       "quick": ["-bounds", "N06levels=2,N06ops=2,N06rops=3,N06validonly=1"],
                       "thorough": ["-bounds", "N06levels=2,N06ops=3,N06rops=3,N06validonly=0"]}},
            {"pkg": "topics", "run": "H06c_.*", "tiers": ["thorough"],
             "flags": {"thorough": ["-unwind", "40", "-revmaps", "-bounds", "N06levels=2,N06ops=2,N06rops=3,N06validonly=1"]}},
            # width and depth: 3..4 subscriptions on overlapping three-level filters, a node with eleven children
            {"pkg": "topics", "run": "H06f_.*", "flags": {"common": ["-unwind", "200"]}, "reach": ["C06.branches", "C06.three_branches_match"], "reach_for": "H06f_branches", "reach_any": ["C06.wide"]},
            {"pkg": "topics", "run": "H06f_.*", "tiers": ["thorough"], "flags": {"thorough": ["-unwind", "200", "-revmaps"]}},
        ],
        "bounds": {"quick": "byte-level: filter and topic of 1..3 arbitrary bytes each (not starting with '$'), all QoS / max-QoS values; splitter: names of 1..5 bytes; histories: 2 subscribers x 2 filters of 1..2 levels (tokens literal byte / + / #, literal values symbolic), 2 operations + lookup; retained: 2 topics, 3 operations + lookup",
                   "thorough": "byte-level 1..4 bytes; splitter 1..7; histories of 3 operations incl. invalid filters, also with reversed map iteration order"},
        "outside": ["names longer than the bounds, more than 2 levels in histories, more than 2 subscribers/filters/topics", "subscriber kinds other than pointers", "map iteration orders other than insertion / reverse insertion"],
        "assumptions": ["oracle: harness/spec/specnames.go (MQTT 3.1.1 section 4.7; '#' matches parent; empty levels literal)"],
    },
    "C12": {
        "level_text": "a client-role service (what Client.Connect builds after CONNACK) with its real processor / receiver / sender goroutines on a harness pipe; an application goroutine calls publish (QoS 0/1/2), subscribe, unsubscribe or ping with a counting completion callback while the harness, as the server peer, acknowledges every request as soon as it sees it. The preempt scheduler suspends any goroutine at any lock / atomic / wait-group operation of package service until everything else has run dry (so the acknowledgement can be processed before the sending call has registered the request). At quiescence: the callback fired exactly once, without error, and a PUBREC was answered by a PUBREL with the same identifier.",
        "level_note": "one outstanding request per run under preemption, two overlapping QoS 2 handshakes (all 6 acknowledgement orders) under the canonical schedule; automatic identifiers: one pair of consecutive requests from an arbitrary 64-bit counter value; preemption points are the synchronisation operations of package service; retransmission is not implemented by the library; duplicate identifiers of forwarded messages (broker-to-subscriber) are not covered",
        "max_validate_sched": {"quick": 12, "thorough": 40},
        "groups": [
            {"pkg": "service", "run": "H12_.*", "sched": True,
             "flags": {"common": ["-unwind", "64", "-sched", "preempt"], "quick": ["-preempt", "1"], "thorough": ["-preempt", "2"]},
             "reach": ["C12.completed"]},
            {"pkg": "service", "run": "H12two_.*",
             "flags": {"common": ["-unwind", "64", "-sched", "canonical"]},
             "reach_any": ["C12.two_completed", "C12.batch_completed"]},
            {"pkg": "message", "run": "H12_auto_ids",
             "flags": {"common": ["-unwind", "40"]},
             "reach": ["C12.auto_ids"]},
            # a decoded message sent on under a new identifier: what is registered is what goes on the wire (see C03)
            {"pkg": "message", "run": "H03f_publish_setters", "flags": {"common": ["-unwind", "40", "-bounds", "N03f=10"]}, "reach": ["C03.setters"]},
            # the outgoing ack queues from an arbitrary state (growth while wrapped, many outstanding requests): step lemmas of C13
            {"pkg": "sessions", "run": "H13_wait|H13_ack|H13_acked",
             "flags": {"common": ["-unwind", "40"], "quick": ["-bounds", "N13logsizes=2,N13ops=4"], "thorough": ["-bounds", "N13logsizes=2,N13ops=4"]},
             "reach": []},
            # the queue at a session's real size with 17..260 requests in flight after 0..17 completed ones (growth while wrapped at 16..256 slots)
            {"pkg": "sessions", "run": "H13p_many", "flags": {"common": ["-unwind", "1000"]}, "reach": ["C13.many"]},
        ],
        "bounds": {"quick": "request kinds: PUBLISH q0/q1/q2, SUBSCRIBE, UNSUBSCRIBE, PINGREQ; one request; one preemption (suspension until quiescence of the rest) anywhere", "thorough": "two preemptions"},
        "outside": ["more than two simultaneous requests and their acknowledgement orders at service level (the queue side of that is decided by the C13 step lemmas, which run here too)", "broker-to-subscriber forwarding with colliding packet identifiers"],
        "assumptions": [],
    },
    "C13": {
        "level_text": "one inductive step of the real Ackqueue code (Wait / Ack / Acked, incl. grow while wrapped) from an ARBITRARY queue state satisfying the representation invariant: ring sizes 2 and 4 (8 thorough), every head position and fill level, symbolic packet ids / states / buffer bytes, symbolic argument; the post-state must equal the list model and satisfy the invariant again, so histories of any length are covered for these ring sizes; plus exhaustive short histories from a fresh queue that tie the invariant to reachable states. H13p_many runs the 16-slot queue a session uses through 17..260 requests in flight after 0..17 completed ones (growth while wrapped at 16..256 slots), acknowledged newest first or even-numbered first.",
        "level_note": "trusted: engine + z3 + the list model in the harness; ring sizes above the bound are outside the claim (the code is size-generic mask arithmetic); the mutex is not contended (single thread)",
        "max_validate_sched": {"quick": 12, "thorough": 40},
        "groups": [
            {"pkg": "sessions", "run": "H13_.*|H13b_.*", "tiers": ["quick"],
             "flags": {"common": ["-unwind", "40"], "quick": ["-bounds", "N13logsizes=2,N13ops=4"]},
             "reach": []},
            # the property through the exported surface only (keeps deciding when the ring's representation is refactored)
            {"pkg": "sessions", "run": "H13p_history",
             "flags": {"common": ["-unwind", "40"], "quick": ["-bounds", "N13pops=3"], "thorough": ["-bounds", "N13pops=4"]},
             "reach": ["C13.history_public", "C13.grown_while_wrapped", "C13.released_some"]},
            # the queue at a session's real size with 17..260 requests in flight after 0..17 completed ones (growth while wrapped at 16..256 slots)
            {"pkg": "sessions", "run": "H13p_many", "flags": {"common": ["-unwind", "1000"]}, "reach": ["C13.many"]},
            {"pkg": "sessions", "run": "H13_wait|H13_ack", "tiers": ["thorough"],
             "flags": {"common": ["-unwind", "40"], "thorough": ["-bounds", "N13logsizes=3"]},
             "reach": []},
            # the queue at a session's real size with 17..260 requests in flight after 0..17 completed ones (growth while wrapped at 16..256 slots)
            {"pkg": "sessions", "run": "H13p_many", "flags": {"common": ["-unwind", "1000"]}, "reach": ["C13.many"]},
            {"pkg": "sessions", "run": "H13_acked|H13_ack_wrong_type|H13_wait_qos0_and_ping|H13_wait_unencodable|H13b_.*", "tiers": ["thorough"],
             "flags": {"common": ["-unwind", "40"], "thorough": ["-bounds", "N13logsizes=2,N13ops=6"]},
             "reach": []},
            # Ack || Wait on a full, wrapped ring (the ring grows, every entry moves) under the exploring scheduler
            {"pkg": "sessions", "run": "H13c_.*", "sched": True,
             "flags": {"common": ["-unwind", "40", "-sched", "explore", "-race"], "quick": ["-preempt", "2"], "thorough": ["-preempt", "3"]},
             "reach": ["C13.ack_during_wait"]},
        ],
        "bounds": {"quick": "ring size 2 and 4, all head/count positions, ids/states/bytes symbolic, request kinds PUBLISH q1/q2, SUBSCRIBE, UNSUBSCRIBE, PINGREQ; ack types 4,5,6,7,9,11,13; histories of 4 operations from newAckqueue(2)",
                   "thorough": "Wait / Ack steps: ring sizes 2,4,8 (about 500 K paths); Acked step: ring sizes 2,4 (size 8 does not finish within 15 minutes); histories of 6 operations"},
        "outside": ["ring sizes above 8 (hundreds of in-flight entries are not executed; growth beyond 8->16 relies on the size-generic arithmetic)", "concurrent callers other than one Ack || one Wait on a ring of 2 (races: C18)"],
        "assumptions": ["representation invariant and list model: DESIGN.md appendix A.4"],
    },
    "C14": {
        "level_text": "step lemmas of the real ring-buffer code: ONE operation (Write, WriteWait+WriteCommit, ReadFrom, Read, ReadPeek+ReadCommit, ReadWait, WriteTo, Len) from an ARBITRARY cursor state - consumer/producer positions and the producer's cached gate are 63-bit solver variables, so every wrap position is covered; ring contents live in one SMT array; an arbitrary committed position is probed for 'left untouched'. The consumer and producer lemmas (DESIGN.md A.5) compose to 'consumer stream is a prefix of producer stream' for one producer and one consumer operating alternately. H14b: a producer needing 2..3 bytes on a ring with 0..1 free stays blocked while the consumer frees one byte at a time. H14c: one producer operation || two consumer steps under the exploring scheduler with the race detector (DESIGN.md 9.9). H14_second_lap: a wrapped peek, a commit, and one lap later a wrapped peek at the same ring index with other contents and a smaller, equal or larger length.",
        "level_note": "trusted: engine + z3 (array theory for the ring) + the lemma statements; chunk sizes above the bound and true interleavings inside one operation are outside this check (blocking and wake-ups: C15; concurrent packet writers: C17)",
        "groups": [
            {"pkg": "service", "run": "H14_.*",
             "flags": {"common": ["-unwind", "40"],
                       "quick": ["-bounds", "N14chunk=4"],
                       "thorough": ["-bounds", "N14chunk=8"]},
             "reach": []},
            {"pkg": "service", "run": "H14b_.*",
             "flags": {"common": ["-unwind", "100000", "-sched", "canonical"]},
             "reach_any": ["C14.blocked_producer", "C14.close_while_blocked", "C14.blocked_readfrom"]},
            {"pkg": "service", "run": "H14w_.*", "flags": {"common": ["-unwind", "100000"]}, "reach": ["C14.write_ringsize"]},
            # packets of different sizes that straddle the end of the outgoing ring one after the other go through the
            # connection's scratch buffer: only the bytes of the current packet may enter the ring (see C17)
            {"pkg": "service", "run": "H17_wrap_sequence", "flags": {"common": ["-unwind", "200"]}, "reach": ["C17.wrap_sequence"]},
            {"pkg": "service", "run": "H14c_.*", "sched": True,
             "flags": {"common": ["-unwind", "40", "-sched", "explore", "-race"], "quick": ["-preempt", "1"], "thorough": ["-preempt", "2"]},
             "reach": ["C14.concurrent"]},
        ],
        "bounds": {"quick": "cursors: any 0 <= cseq < 2^61, any fill level 0..size, any gate <= cseq; chunk sizes 0..4 (peek -1..5); ring of 16384 bytes (the smallest the constructor allows); H14c: 3 cursor positions x 3 fill levels x 3 producer x 3 consumer operations, preemption bound 1",
                   "thorough": "chunk sizes 0..8"},
        "outside": ["chunk sizes above the bound (the cursor arithmetic is symbolic; only the byte copies are bounded)", "interleavings within an operation (C15 covers blocking/wake-up interleavings; C17 the packet writer)", "ring sizes other than 16384"],
        "assumptions": ["stub io.Reader / io.Writer written in the harness (partial reads allowed; writer closes the buffer after one block)"],
    },
    "C15": {
        "level_text": "the real buffer code runs in 2-4 interpreter threads (consumer operation || producer operation || one or two Close calls) from empty / one-byte / one-free-byte / full rings at two cursor positions; the exploring scheduler makes the choice of the next thread at every lock, condition-variable and atomic operation a decision within the preemption bound; a reachable state in which an unfinished thread can never run again (lost wake-up, mutex left locked) is a deadlock event; afterwards every buffer call is probed once more. H15_large_request: a producer request of 12000 bytes (more than one read block) that must wait for a 2000-byte commit, and a request larger than the ring that ends with the ring.",
        "level_note": "liveness is decided as absence of reachable stuck states within the bounds (threads, preemptions, one operation per thread); fairness-dependent starvation is outside; sync.Mutex/Cond/atomic are modelled by the engine (lost wake-ups if nobody is parked; no spurious wake-ups); counterexamples are replayed against the real code with a forced schedule on an instrumented copy of the sources",
        "groups": [
            {"pkg": "service", "run": "H15_.*", "sched": True,
             "flags": {"common": ["-unwind", "40", "-sched", "explore"],
                       "quick": ["-preempt", "1"],
                       "thorough": ["-preempt", "2"]},
             "reach": ["C15.all_returned", "C15.probed_after_close"], "reach_for": "H15_pair", "reach_any": ["C15.large_request"]},
            # the ring a connection gets for any configured size (a ring below two read blocks starves the socket pump)
            {"pkg": "service", "run": "H14_sizes", "flags": {"common": ["-unwind", "100000"]}, "reach": ["C14.sizes"]},
            # the sender pump gives up on a failing socket write - with whatever error - only after closing the ring (see C14)
            {"pkg": "service", "run": "H14_writeto_writer_fails", "flags": {"common": ["-unwind", "40", "-bounds", "N14chunk=4"]}, "reach": ["C14.writeto_writer_fails"]},
        ],
        "bounds": {"quick": "threads: consumer op (Read / ReadPeek+ReadCommit / ReadWait+ReadCommit of 2) || producer op (Write / WriteWait+WriteCommit of 2) || 0-2 Close; 5 fill states x 2 cursor positions; preemption bound 1 (plus all switches at blocking points)",
                   "thorough": "preemption bound 2"},
        "outside": ["more than one operation per thread before the probe phase", "preemptions beyond the bound", "starvation under unfair scheduling", "spurious condition-variable wake-ups"],
        "assumptions": ["scheduling points: every sync/atomic operation called from the package's own source files"],
    },
    "C07": {
        "level_text": "the real broker (handleConnection .. processor/receiver/sender on in-memory pipes) executes SUBSCRIBE packets of 1..K level-structured filters (valid and invalid, literal values symbolic) with a fully symbolic requested-QoS byte and symbolic server maximum, and UNSUBSCRIBE packets over subscribed and unknown filters; the answer bytes must be exactly the SUBACK/UNSUBACK the standard prescribes (or the connection is closed), and a publish from a second connection after the ack is delivered iff an accepted filter matches. Further: requests with 21..200 literal filters, the decode side at the sizes where the remaining-length field grows (H04b), and a subscription surviving another client that holds the same filter leaving (DISCONNECT, drop or UNSUBSCRIBE).",
        "level_note": "canonical schedule; vrtConn pipes; oracle = reference codec + section 4.7 matching; filters with empty levels are excluded here (known finding under C06)",
        "max_validate": {"quick": 120, "thorough": 400},
        "groups": [
            # an acknowledged subscription whose retained delivery jams and whose client then drops is part of the session
            {"pkg": "service", "run": "H07j_.*", "flags": {"common": ["-unwind", "100000"]}, "reach": ["C07.acknowledged_then_jammed"]},
            {"pkg": "service", "run": "H07_.*",
             "flags": {"common": ["-unwind", "64"],
                       "quick": ["-bounds", "N07levels=2,N07filters=2,N07ufilters=2"],
                       "thorough": ["-bounds", "N07levels=3,N07filters=2,N07ufilters=2"]},
             "reach": []},
            {"pkg": "service", "run": "H07many_.*",
             "flags": {"common": ["-unwind", "2000"]},
             "reach": ["C07.many_filters"]},
            {"pkg": "message", "run": "H04b_subscribe_large|H04b_unsubscribe_large|H04b_suback_large", "flags": {"common": ["-unwind", "40000"]}, "reach": ["C04.large"]},
            # a refused filter changes nothing in the subscription tree (see C06)
            {"pkg": "topics", "run": "H06c_rejected", "flags": {"common": ["-unwind", "40"]}, "reach": ["C06.rejected"]},
            # subscription changes (UNSUBSCRIBE, the teardown of a connection, the in-process API) while another connection's
            # fan-out walks the same part of the tree: with the happens-before race detector (see C18)
            {"pkg": "service", "run": "H18_fanout_churn|H18_teardown|H18_inproc_api", "flags": {"common": ["-unwind", "64", "-race"]}, "reach": []},
            # SUBSCRIBE / UNSUBSCRIBE of a filter the connection holds because its persistent session was restored (see C10)
            {"pkg": "service", "run": "H10_requalify_resumed|H10_unsubscribe_resumed", "flags": {"common": ["-unwind", "64"]}, "reach": []},
        ],
        "bounds": {"quick": "SUBSCRIBE with 1..2 filters of 1..2 levels (tokens literal/+/#, '#' possibly misplaced), requested QoS 0..255, server maximum 0..2; UNSUBSCRIBE with 1..2 filters drawn from two subscribed ones and an unknown one; one publish on a symbolic topic afterwards; plus concrete requests with 24, 25, 26, 125, 126, 127, 128 and 200 literal filters (subscribe, publish to the first / middle / last, unsubscribe, publish again)",
                   "thorough": "filters and topic of 1..3 levels"},
        "outside": ["more filters per packet than the bound (N well above 4 is NOT covered at broker level; the codec side is C03/C04)", "empty topic levels", "publishes concurrent with the (un)subscribe (canonical schedule)"],
        "assumptions": [],
    },
    "C01": {
        "level_text": "the real broker with two subscriber connections and one in-process subscriber (symbolic level-structured filters, symbolic granted QoS each), an optional change (unsubscribe, end of a connection, re-subscription with another QoS, in-process unsubscribe) and then one PUBLISH from a connection or through Server.Publish with symbolic topic, payload bytes and QoS: every holder of a matching subscription must receive exactly one PUBLISH with the same topic, a byte-identical payload, QoS min(publish, granted) and the retain flag cleared, and nobody else anything.",
        "level_note": "canonical schedule for the broker scenarios; of the clients' interleavings only two concurrent deliveries to one subscriber connection are explored (the writeMessage harness of C17, preemption bound 1 here); races are C18; names with empty levels excluded (known finding under C06); map iteration in insertion order (reverse order in the thorough tier)",
        "max_validate": {"quick": 100, "thorough": 300},
        "max_validate_sched": {"quick": 12, "thorough": 40},
        "groups": [
            {"pkg": "service", "run": "H01_.*", "tiers": ["quick"],
             "flags": {"quick": ["-unwind", "64", "-bounds", "N01levels=2,N01levelsB=1,N01levelsT=1,N01changes=2,N01payload=1,N01payloadmin=1"]},
             "reach": ["C01.delivered.a", "C01.delivered.b", "C01.delivered.inproc", "C01.inprocess_publish"], "reach_for": "H01_fanout", "reach_any": ["C01.failing_subscriber", "C01.nested_publish", "C01.unsubscribe_in_callback"]},
            {"pkg": "service", "run": "H01_.*", "tiers": ["thorough"],
             "flags": {"thorough": ["-unwind", "64", "-bounds", "N01levels=2,N01levelsB=1,N01levelsT=2,N01changes=5,N01payload=1,N01payloadmin=1"]},
             "reach": ["C01.delivered.a", "C01.delivered.b", "C01.delivered.inproc", "C01.inprocess_publish"], "reach_for": "H01_fanout", "reach_any": ["C01.failing_subscriber", "C01.nested_publish", "C01.unsubscribe_in_callback"]},
            {"pkg": "service", "run": "H01_.*", "tiers": ["thorough"],
             "flags": {"thorough": ["-unwind", "64", "-revmaps", "-bounds", "N01levels=2,N01levelsB=1,N01levelsT=1,N01changes=2,N01payload=1,N01payloadmin=1"]}},
            # a repeated SUBSCRIBE replaces the granted QoS of the subscription (see C07)
            {"pkg": "service", "run": "H07_resubscribe", "flags": {"common": ["-unwind", "64"]}, "reach": ["C07.resubscribed"]},
            # an UNSUBSCRIBE that lists an unknown filter ahead of a held one still removes the held one (see C07)
            {"pkg": "service", "run": "H07_unsubscribe", "flags": {"common": ["-unwind", "64", "-bounds", "N07levels=1,N07filters=2,N07ufilters=2"]}, "reach": []},
            # ... also for the connection that resumes the session later (see C10)
            {"pkg": "service", "run": "H10_requalify_resumed", "flags": {"common": ["-unwind", "64"]}, "reach": []},
            # the matcher on a node with many children and on several live branches (see C06)
            {"pkg": "topics", "run": "H06f_.*", "flags": {"common": ["-unwind", "200"]}, "reach": ["C06.branches"], "reach_for": "H06f_branches", "reach_any": ["C06.wide"]},
            # re-encoded deliveries whose remaining length is 125..131
            {"pkg": "service", "run": "H01s_.*", "flags": {"common": ["-unwind", "100000"]}, "reach": ["C01.boundary_sizes"]},
            # accepted QoS 2 publishes wait in the inbound queue (growth, wrap: step lemmas of C13); large messages pipelined
            # while the fan-out is held up (see C17)
            {"pkg": "sessions", "run": "H13_wait|H13_acked",
             "flags": {"common": ["-unwind", "40"], "quick": ["-bounds", "N13logsizes=2,N13ops=4"], "thorough": ["-bounds", "N13logsizes=2,N13ops=4"]},
             "reach": []},
            # the queue at a session's real size with 17..260 requests in flight after 0..17 completed ones (growth while wrapped at 16..256 slots)
            {"pkg": "sessions", "run": "H13p_many", "flags": {"common": ["-unwind", "1000"]}, "reach": ["C13.many"]},
            {"pkg": "service", "run": "H17_backpressure", "flags": {"common": ["-unwind", "100000"]}, "reach": []},
            # two clients' deliveries to one subscriber interleaved at every synchronisation point (see C17)
            {"pkg": "service", "run": "H17_two_writers", "sched": True,
             "flags": {"common": ["-unwind", "64", "-sched", "explore"], "quick": ["-preempt", "1"], "thorough": ["-preempt", "2"]},
             "reach": ["C17.two_writers"]},
        ],
        "bounds": {"quick": "filters: A 1..2 levels, B 1 level, in-process '#'; topic 1 level; payload 1 symbolic byte; change none / A unsubscribes; publisher connection or Server.Publish; all QoS values",
                   "thorough": "topic 1..2 levels, changes: none / unsubscribe / connection end / re-subscribe / in-process unsubscribe; plus the quick space with reversed map iteration order"},
        "outside": ["client interleavings", "payloads beyond the bound up to the packet limit (size arithmetic: C14/C03)", "more clients", "empty topic levels"],
        "assumptions": [],
    },
    "C02": {
        "level_text": "the real broker processes a sequence of K inbound packets on one connection, each symbolically a QoS 1 PUBLISH, a QoS 2 PUBLISH (DUP symbolic), a PUBREL or unrelated traffic, with 16-bit packet identifiers chosen by the solver (so it decides which coincide); after every packet the bytes answered (exactly one PUBACK / PUBREC / PUBCOMP with that identifier) and what a QoS 2 subscriber of '#' was handed (count, order, original content, QoS) are compared with the receive-side model of DESIGN.md A.6.",
        "level_note": "canonical schedule; broker role only (the client role's dispatch is C20); the content-aliasing of stored QoS 2 messages against ring reuse is decided at queue level (the C13 step lemmas, run here too: source buffers are overwritten after Wait/Ack); ring lapping during a held-up hand-over is the H17_backpressure scenario",
        "max_validate": {"quick": 100, "thorough": 300},
        "max_validate_sched": {"quick": 12, "thorough": 40},
        "groups": [
            {"pkg": "service", "run": "H02_.*",
             "flags": {"common": ["-unwind", "64"], "quick": ["-bounds", "N02packets=4"], "thorough": ["-bounds", "N02packets=6"]},
             "reach": ["C02.duplicate_qos2_publish", "C02.qos2_handed_over"], "reach_for": "H02_receiver", "reach_any": ["C02.resumed_exchange", "C02.refused_topic"]},
            # the inbound QoS 2 queue from an arbitrary state (growth, wrap, full ring): step lemmas of C13
            {"pkg": "sessions", "run": "H13_wait|H13_acked|H13_ack",
             "flags": {"common": ["-unwind", "40"], "quick": ["-bounds", "N13logsizes=2,N13ops=4"], "thorough": ["-bounds", "N13logsizes=2,N13ops=4"]},
             "reach": []},
            # the queue at a session's real size with 17..260 requests in flight after 0..17 completed ones (growth while wrapped at 16..256 slots)
            {"pkg": "sessions", "run": "H13p_many", "flags": {"common": ["-unwind", "1000"]}, "reach": ["C13.many"]},
            # unrelated traffic that laps the receive ring while a hand-over is held up (see C17)
            {"pkg": "service", "run": "H17_backpressure", "flags": {"common": ["-unwind", "100000"]}, "reach": []},
            # an acknowledgement written while another connection forwards to the same client (see C17)
            {"pkg": "service", "run": "H17_two_writers", "sched": True,
             "flags": {"common": ["-unwind", "64", "-sched", "explore"], "quick": ["-preempt", "1"], "thorough": ["-preempt", "2"]},
             "reach": ["C17.two_writers"]},
            # answers and forwards of different sizes straddling the end of the client's outgoing ring one after the other (see C17)
            {"pkg": "service", "run": "H17_wrap_sequence", "flags": {"common": ["-unwind", "200"]}, "reach": ["C17.wrap_sequence"]},
            # framing of inbound packets in the receive ring, any header bytes
            {"pkg": "service", "run": "H17_peeksize", "flags": {"common": ["-unwind", "40"]}, "reach": ["C17.peeksize"]},
        ],
        "bounds": {"quick": "4 inbound packets, ids symbolic, payload 1 symbolic byte", "thorough": "6 inbound packets"},
        "outside": ["longer sequences (in particular more than 16 unreleased QoS 2 messages, where the queue grows: the growth step itself is C13)", "cross-connection timing"],
        "assumptions": [],
    },
    "C08": {
        "level_text": "the real broker executes histories of retained / non-retained / empty-payload publishes (QoS 0..2, completed handshakes) on two symbolic topics interleaved with new subscriptions (a connection's SUBSCRIBE or the in-process Server.Subscribe) using symbolic level-structured filters; what an existing subscriber is forwarded (retain flag cleared) and what each new subscription receives (exactly the matching retained messages, retain flag set, QoS min(stored, granted), payload intact) are compared with the retained-store model of DESIGN.md A.6. A hook on the topic store lets a retained update or clear land between the two steps of a new subscription (wire SUBSCRIBE and Server.Subscribe): the subscription must end up with the current value. Sizes: a stored QoS 1/2 message whose remaining length is 127..131 downgraded for a lower grant (network and in-process subscriber), 9..12 retained matches for one SUBSCRIBE of 2..3 filters, retained copies whose publisher-chosen identifiers and DUP flags coincide with deliveries still in flight.",
        "level_note": "canonical schedule; the copy-on-store property against ring reuse is checked at store level in C06 (the caller's buffers are overwritten after Retain); retained updates concurrent with a subscription are C18",
        "max_validate": {"quick": 100, "thorough": 300},
        "groups": [
            {"pkg": "service", "run": "H08_.*", "tiers": ["quick"],
             "flags": {"quick": ["-unwind", "64", "-bounds", "N08levels=2,N08ops=2,N08second=1"]}, "reach": ["C08.history"]},
            {"pkg": "service", "run": "H08_.*", "tiers": ["quick"],
             "flags": {"quick": ["-unwind", "64", "-bounds", "N08levels=2,N08ops=3,N08fixed=1"]}, "reach": ["C08.retained_delivered", "C08.cleared", "C08.inprocess"]},
            {"pkg": "service", "run": "H08_.*", "tiers": ["quick"],
             "flags": {"quick": ["-unwind", "64", "-bounds", "N08levels=1,N08ops=3,N08fixed=2"]}, "reach": ["C08.retained_delivered"]},
            {"pkg": "service", "run": "H08_.*", "tiers": ["thorough"],
             "flags": {"thorough": ["-unwind", "64", "-bounds", "N08levels=2,N08ops=3"]}, "reach": ["C08.retained_delivered", "C08.cleared", "C08.inprocess"]},
            # a retained update / clear landing between the two steps of a new subscription (hook on the topic store)
            {"pkg": "service", "run": "H08b_.*|H08c_.*|H08d_.*|H08e_.*|H08f_.*|H08g_.*", "flags": {"common": ["-unwind", "64"]}, "reach_any": ["C08.update_during_subscribe", "C08.capped_grant", "C08.inprocess_retained_publish", "C08.multi_filter", "C08.retained_same_id", "C08.inprocess_subscriber_busy"]},
            # a large retained message refreshed while new subscriptions are still encoding the copy they were handed (see C18)
            {"pkg": "service", "run": "H18_retained_refresh_large", "flags": {"common": ["-unwind", "3000", "-race"]}, "reach": ["C18.retained_refresh_large"]},
            # sizes: a stored message downgraded across the 127/128 length boundary; 9..12 retained matches for one SUBSCRIBE
            {"pkg": "service", "run": "H08s_.*|H08m_.*", "flags": {"common": ["-unwind", "300"]}, "reach": ["C08.boundary_retained"], "reach_for": "H08s_boundary_retained", "reach_any": ["C08.many_retained"]},
            # retained updates, clears and look-ups by several connections at once, with the race detector (see C18)
            {"pkg": "service", "run": "H18_retained_update", "flags": {"common": ["-unwind", "64", "-race"]}, "reach": ["C18.retained_update"]},
            # the store copies a message through Len() and Encode(): both are the wire size for every remaining length (see C03)
            {"pkg": "message", "run": "H03a_header", "flags": {"common": ["-unwind", "40"]}, "reach": []},
        ],
        "bounds": {"quick": "histories: retained publish, then 1 free operation; publish, publish, new subscription (names of 1..2 levels); publish, subscription, subscription (names of 1 level); the hooked update-during-subscribe scenario; everything else symbolic (2 topics and a filter of 1..2 levels, payload 0..1 bytes, QoS 0..2, retain bit, granted QoS)", "thorough": "retained publish followed by 2 free operations"},
        "outside": ["more topics / operations", "empty topic levels (known finding under C06)", "retained updates concurrent with subscription (C18)"],
        "assumptions": [],
    },
    "C09": {
        "level_text": "the real broker runs a connection whose CONNECT carries a fully symbolic will (flag, QoS, retain, topic byte, payload) and clean-session bit, optionally some traffic, and one of five endings (DISCONNECT, network drop, read-deadline expiry, reserved packet type, malformed PUBLISH); a witness subscribed to '#' at QoS 2 must see the will of the ending connection's CONNECT exactly once iff the ending is not DISCONNECT; a second harness reconnects the same client id with a different / no will and either clean-session value; a third sends CONNECT (with will), PUBLISH and DISCONNECT without waiting for CONNACK, in two segments cut at an arbitrary byte. H09_will_same_id: the will's generator-assigned packet identifier may equal one still in flight at the witness; the identifier generator from an arbitrary counter value (H03d).",
        "level_note": "canonical schedule; vrtConn pipes (deadline expiry is declared by the harness); Server.Close as an ending and concurrent endings are outside (C16)",
        "max_validate": {"quick": 100, "thorough": 300},
        "groups": [
            {"pkg": "service", "run": "H09_.*", "flags": {"common": ["-unwind", "64"]},
             "reach": ["C09.will_seen"], "reach_for": "H09_will|H09_reconnect", "reach_any": ["C09.pipelined", "C09.ended", "C09.reconnected", "C09.retained_will_qos", "C09.will_id_collides_with_one_in_flight"]},
            # the will of a dropped connection is still being fanned out (a slow subscriber) when the same client connects again
            # and the session takes the new CONNECT: the subscribers behind the slow one get the FIRST connection's will (see C18)
            {"pkg": "service", "run": "H18_will_during_takeover", "flags": {"common": ["-unwind", "3000", "-race"]}, "reach": ["C18.will_during_takeover"]},
            # a dead client whose full outgoing ring blocks its own processor (or a publisher to it) is still dropped at
            # keep-alive expiry, and its will is published (see C19 / C05; without the self-flooding variant: known finding there)
            {"pkg": "service", "run": "H19b_dead_subscriber", "flags": {"common": ["-unwind", "100000", "-bounds", "N19selfflood=0"]}, "reach": ["C19.dead_subscriber_dropped"]},
            # the will is built by the broker without a packet identifier and gets one from the process-wide generator at
            # its first encoding (for a retained will: inside the retained store): from an arbitrary counter value (see C03)
            {"pkg": "message", "run": "H03d_.*", "flags": {"common": ["-unwind", "40"]}, "reach": ["C03.auto"]},
        ],
        "bounds": {"quick": "will topic 'w'+1 symbolic byte, payload 0..1 bytes, QoS 0..2, retain; endings x5; optional PINGREQ before the end; two successive connections of one client id with symbolic clean-session bits and wills", "thorough": "same"},
        "outside": ["longer will topics/payloads", "Server.Close as ending", "wills with invalid topic names"],
        "assumptions": [],
    },
    "C10": {
        "level_text": "the real broker serves K successive connections over two client ids (one symbolic byte each - the solver decides whether they coincide) with symbolic clean-session bits; each may subscribe or unsubscribe and ends by DISCONNECT or network drop; the SessionPresent bit of every CONNACK, delivery through restored subscriptions without re-subscribing, isolation between ids and the size of the session store are compared with the session model of DESIGN.md A.6. A SUBSCRIBE may list a refused filter ahead of the accepted one; H10_takeover lets the same client id connect again while its old connection is still up, subscribes through the newer one and ends the two in either order. H10m_many_filters: a persistent session with 17..300 filters made over one to four SUBSCRIBE packets, resumed twice, one filter removed in between.",
        "level_note": "canonical schedule; one filter ('t'); two simultaneous connections with the same id (take-over) are outside",
        "max_validate": {"quick": 100, "thorough": 300},
        "groups": [
            # an acknowledged subscription whose retained delivery jams and whose client then drops is part of the session
            {"pkg": "service", "run": "H07j_.*", "flags": {"common": ["-unwind", "100000"]}, "reach": ["C07.acknowledged_then_jammed"]},
            {"pkg": "service", "run": "H10_.*",
             "flags": {"common": ["-unwind", "64"], "quick": ["-bounds", "N10conns=2"], "thorough": ["-bounds", "N10conns=2"]},
             "reach": ["C10.restored", "C10.history"], "reach_for": "H10_sessions", "reach_any": ["C10.takeover", "C10.broken_reconnect", "C10.unsubscribe_resumed", "C10.restored_before_first_answer"]},
            {"pkg": "service", "run": "H10_.*", "tiers": ["thorough"],
             "flags": {"thorough": ["-unwind", "64", "-revmaps", "-bounds", "N10conns=2"]}},
            # a persistent session with 17..300 filters over one to four SUBSCRIBE packets, resumed twice
            {"pkg": "service", "run": "H10m_.*", "flags": {"common": ["-unwind", "2000"]}, "reach": ["C10.many_filters"]},
        ],
        "bounds": {"quick": "2 successive connections, 2 client ids (possibly equal), action none/subscribe/unsubscribe, ending DISCONNECT/drop", "thorough": "the same space, and once more with reversed map iteration order (three successive connections: 740 K paths, about an hour - not registered)"},
        "outside": ["more connections / filters", "session take-over by a second live connection", "provider plug-ins other than mem"],
        "assumptions": [],
    },
    "C11": {
        "level_text": "the real accept path (handleConnection, getMessageBuffer, CONNECT decode, authentication, session creation, start of the connection's goroutines) runs on an in-memory pipe inside the engine; the first packet is (a) an arbitrary byte string of 0..N bytes and (b) a CONNECT built from fully symbolic fields and flags, under the accepting and the rejecting authenticator; it is followed by a SUBSCRIBE and a retained PUBLISH. The CONNACK bytes, the open/closed state, a witness subscriber, the retained store and the session count are compared with the outcome classes of DESIGN.md A.3. An acceptable CONNECT arriving in two segments cut at any byte, alone or with packets pipelined behind it, must be accepted (H09_pipelined). H11_reconnect_accepted: 2..3 successive connections of one client identifier (clean flags and endings symbolic) are each answered with return code 0 and work.",
        "level_note": "canonical schedule (every packet is processed to quiescence before the next arrives); net.Conn is the harness pipe vrtConn; logging stubbed; don't-care: non-minimal remaining-length encodings and user-name/password flags without the field (library-documented 3.1 leniency)",
        "max_validate": {"quick": 120, "thorough": 400},
        "groups": [
            {"pkg": "service", "run": "H11_.*",
             "flags": {"common": ["-unwind", "64"],
                       "quick": ["-bounds", "N11=16,N11str=1"],
                       "thorough": ["-bounds", "N11=20,N11str=2"]},
             "reach": ["C11.accepted", "C11.refused_malformed", "C11.refused_proto", "C11.refused_id"], "reach_for": "H11_first_packet_bytes|H11_connect_fields"},
            # an acceptable CONNECT arriving in two segments cut anywhere, with or without packets pipelined behind it
            {"pkg": "service", "run": "H09_pipelined", "flags": {"common": ["-unwind", "64"]}, "reach": ["C09.pipelined"]},
        ],
        "bounds": {"quick": "first packet: any 0..16 bytes, or a CONNECT with symbolic level/flags/keep-alive, protocol name MQTT or MQIsdp, client id 0..2 bytes, will/user/password 0..1 bytes; both authenticators",
                   "thorough": "first packet 0..20 bytes; client id 0..3, other strings 0..2 bytes"},
        "outside": ["first packets longer than the bound", "schedules other than canonical", "TLS / websocket front ends, real sockets and their deadlines"],
        "assumptions": ["outcome classes: DESIGN.md appendix A.3 (harness/spec/speccodec.go specConnectClass)"],
    },
    "C16": {
        "level_text": "bounded: two connections (publisher, subscriber; both connection orders) on harness pipes that can stop reading; buffer conditions idle / subscriber stalled with its outbound ring full and the publisher's processor blocked in the delivery / additionally the publisher's inbound ring full / both stalled and flooding each other / a connection flooding itself without reading (processor blocked on its own outbound ring) / a protocol error in the middle of a full pipeline behind a stalled subscriber; endings DISCONNECT, network drop, read-deadline expiry, protocol error, broken write side followed by a last SUBSCRIBE and the drop (the two connections one after the other, either order) or Server.Close with everything still blocked. At quiescence after the endings no interpreter thread of an ended connection is alive, both pipes are closed, nothing is subscribed any more and Server.Close returns; a thread that can never run again is reported (live thread at quiescence, or deadlock of Server.Close). Further: four to six steps of connect / end before Server.Close (H16_churn_then_close), an ending while the inbound ring holds a packet that is never completed (H16_truncated_packet_at_end; a processor that retries for ever is found as a livelock candidate and confirmed natively by the CPU it burns), and Server.Close while a connection's own teardown is in progress (H18_close_during_teardown).",
        "level_note": "this is NOT the property's 'bounded time for all schedules': it decides absence of stuck states under the canonical schedule for these fault sequences (liveness as reachability of a stuck state, as in C15); other interleavings of the 8 goroutines, more connections and other orders of the endings are outside; natively the goroutine count (runtime.NumGoroutine relative to the start of the run) stands in for the engine's thread accounting",
        "max_validate": {"quick": 40, "thorough": 80},
        "groups": [
            {"pkg": "service", "run": "H16_.*", "flags": {"common": ["-unwind", "100000"]},
             "reach": ["C16.blocked_on_stalled_subscriber", "C16.cross_blocked", "C16.blocked_on_own_ring", "C16.error_in_full_pipeline", "C16.receiver_parked_behind_error", "C16.server_close_as_ending", "C16.torn_down"], "reach_for": "H16_teardown",
             "reach_any": ["C16.churn_then_close", "C16.truncated_packet_at_end", "C16.oversized_packet"]},
            # the subscriptions of a connection that holds them because its persistent session was restored are its own:
            # it can remove them, and they end with it (see C10)
            {"pkg": "service", "run": "H10_requalify_resumed|H10_unsubscribe_resumed", "flags": {"common": ["-unwind", "64"]}, "reach": []},
            # Server.Close while a connection's own teardown is under way (forced by a hook on the topic store)
            {"pkg": "service", "run": "H18_close_during_teardown", "flags": {"common": ["-unwind", "64", "-race"]}, "reach": ["C18.close_during_teardown"]},
            # keep-alive expiry of a dead client whose full outgoing ring blocks a publisher (see C19)
            # (without the variant in which the dead client filled its rings itself: there the connection that has
            # stopped reading and holds up the delivery is the dying one itself, which C16's statement exempts;
            # under C19 that variant is a known finding)
            {"pkg": "service", "run": "H19b_.*", "flags": {"common": ["-unwind", "100000", "-bounds", "N19selfflood=0"]}, "reach": ["C19.dead_subscriber_dropped"]},
            # a DISCONNECT that arrives together with the close, a will after every kind of ending (see C09)
            {"pkg": "service", "run": "H09_will", "flags": {"common": ["-unwind", "64"]}, "reach": ["C09.will_seen"]},
        ],
        "bounds": {"quick": "6 buffer conditions x 6 endings x 2 connection orders x 2 ending orders x clean/persistent subscriber session; 8400-byte messages against 16 KiB rings; canonical schedule", "thorough": "same"},
        "outside": ["schedules other than canonical", "more than two connections, third-party blocking chains", "real sockets (kernel buffers, TCP timers)", "bounded *time* (only: no stuck state)"],
        "assumptions": ["a peer that stopped reading is a pipe whose Write blocks after 100 pending bytes; closing the peer end makes blocked and later writes fail (connection reset)"],
    },
    "C17": {
        "level_text": "(a) two goroutines call the real writeMessage for the same connection whose outgoing ring is 0..13 bytes before its wrap point (so the direct path and the copy-through-outtmp path both occur, mid-packet); the exploring scheduler covers every interleaving at the lock / atomic / condition operations of package service within the preemption bound; the bytes the sender would put on the wire must be exactly the two packets in either order. (b) one publisher pipelines more large messages than its input ring holds while the fan-out of the first one is held up: every message must arrive intact and in order. (c) one publisher pipelines N messages on one topic to two subscribers with symbolic granted QoS: whole packets, in publishing order. (d) the sender's side of the outgoing ring (WriteTo = ReadPeek + ReadCommit, and ReadWait) from an arbitrary cursor state, every wrap position: what is handed to the connection is exactly the queued bytes, no more (the C14 consumer lemmas).",
        "level_note": "(a) is a two-thread unit harness replayed natively with a forced schedule on an instrumented copy of the package; (b) and (c) run the whole broker under the canonical schedule; more than two concurrent writers and larger packets are outside",
        "max_validate": {"quick": 60, "thorough": 200},
        "max_validate_sched": {"quick": 16, "thorough": 60},
        "groups": [
            {"pkg": "service", "run": "H17_two_large_writers", "sched": True,
             "flags": {"common": ["-unwind", "20000", "-sched", "explore"], "quick": ["-preempt", "1"], "thorough": ["-preempt", "2"]},
             "reach": ["C17.two_writers"]},
            {"pkg": "service", "run": "H17_two_writers", "sched": True,
             "flags": {"common": ["-unwind", "64", "-sched", "explore"], "quick": ["-preempt", "2"], "thorough": ["-preempt", "3"]},
             "reach": ["C17.two_writers"]},
            {"pkg": "service", "run": "H17_backpressure|H17_order|H17_qos2_window", "flags": {"common": ["-unwind", "100000"]},
             "reach": []},
            {"pkg": "service", "run": "H14_readpeek_commit|H14_writeto|H14_readwait|H14_second_lap",
             "flags": {"common": ["-unwind", "40"], "quick": ["-bounds", "N14chunk=4"], "thorough": ["-bounds", "N14chunk=8"]},
             "reach": []},
            {"pkg": "service", "run": "H17_peeksize", "flags": {"common": ["-unwind", "40"]}, "reach": ["C17.peeksize"]},
            {"pkg": "service", "run": "H01_failing_subscriber", "flags": {"common": ["-unwind", "64"]}, "reach": ["C01.failing_subscriber"]},
            {"pkg": "service", "run": "H19c_.*", "flags": {"common": ["-unwind", "100000"]}, "reach": ["C19.ping_during_large_publish"]},
            # a wrapping write (Write) against a sender that waits on the empty ring, every interleaving (see C14)
            {"pkg": "service", "run": "H14c_.*", "sched": True,
             "flags": {"common": ["-unwind", "40", "-sched", "explore", "-race"], "quick": ["-preempt", "1"], "thorough": ["-preempt", "2"]},
             "reach": ["C14.concurrent"]},
            # two QoS 1 deliveries through the full sending path (registration, then write) near the wrap point, with the detector
            {"pkg": "service", "run": "H17b_.*", "sched": True,
             "flags": {"common": ["-unwind", "64", "-sched", "explore", "-race"], "quick": ["-preempt", "1"], "thorough": ["-preempt", "2"]},
             "reach": ["C17.two_publishers"]},
            # the CONNACK is the first packet of the stream also when requests are pipelined behind the CONNECT (see C09 / C11)
            {"pkg": "service", "run": "H09_pipelined", "flags": {"common": ["-unwind", "64"]}, "reach": ["C09.pipelined"]},
            {"pkg": "service", "run": "H11_connack_first", "flags": {"common": ["-unwind", "64"]}, "reach": ["C11.connack_first"]},
            {"pkg": "service", "run": "H01_nested_publish", "flags": {"common": ["-unwind", "64"]}, "reach": ["C01.nested_publish"]},
            {"pkg": "service", "run": "H14_sizes", "flags": {"common": ["-unwind", "100000"]}, "reach": ["C14.sizes"]},
            # packets of different sizes, each straddling the end of the outgoing ring, one after the other
            {"pkg": "service", "run": "H17_wrap_sequence", "flags": {"common": ["-unwind", "200"]}, "reach": ["C17.wrap_sequence"]},
            # a writer waiting for room in the full outgoing ring proceeds only when there is enough (see C14)
            {"pkg": "service", "run": "H14b_.*", "flags": {"common": ["-unwind", "100000", "-sched", "canonical"]}, "reach_any": ["C14.blocked_producer", "C14.close_while_blocked", "C14.blocked_readfrom"]},
            # writeMessage reserves Len() bytes and commits what Encode reports: both must be the wire size for every remaining length
            {"pkg": "message", "run": "H03a_header", "flags": {"common": ["-unwind", "40"]}, "reach": []},
        ],
        "bounds": {"quick": "two writers, 6-byte PUBLISH packets with symbolic payload, 14 wrap offsets, preemption bound 2; back-pressure: 3 messages of 8400 bytes through a 16 KiB ring; order: 4 pipelined messages, QoS 0/1, two subscribers", "thorough": "preemption bound 3"},
        "outside": ["more than two concurrent writers", "packets larger than the bound in (a)", "client interleavings in (b)/(c) beyond the canonical schedule"],
        "assumptions": [],
    },
    "C18": {
        "level_text": "broker scenarios (retained update against subscriptions that receive the retained message, two publishers plus Server.Publish to one subscriber with subscription churn, delivery to a connection that is being torn down while another connects, several connections and an in-process call receiving the same stored retained message at once, a stored session resumed - after the old connection ended or while it is still open - while another connection publishes to its subscription) run with the engine's happens-before race detector: vector clocks per thread, release/acquire edges for every mutex, RWMutex, Cond, WaitGroup, Once, atomic, go and channel operation, and a shadow state per memory cell; two conflicting accesses by different threads that no synchronisation chain orders are a race whatever the interleaving of the explored run was. A race is reported only if the Go race detector reports one on the natively compiled scenario. Server.Close against a teardown in progress, against a connection being accepted and against a fan-out of a connection that has a will; a ring closed while its consumer works on a wrapped block (exploring scheduler).",
        "level_note": "a happens-before detector sees the races between accesses that occur in the explored executions (canonical schedule, plus one preemption in the thorough tier); operation pairs outside the scenario matrix, races inside net / logging / TLS are outside",
        "max_validate": {"quick": 20, "thorough": 40},
        "max_validate_sched": {"quick": 8, "thorough": 24},
        "validate_under_race": True,
        "groups": [
            {"pkg": "service", "run": "H18_.*", "flags": {"common": ["-unwind", "3000", "-race"]},
             "reach_any": ["C18.retained_update", "C18.fanout_churn", "C18.teardown", "C18.teardown_delivery", "C18.teardown_after_delivery", "C18.resume", "C18.ackqueue", "C18.inproc_api", "C18.will_during_takeover", "C18.close_during_teardown", "C18.close_vs_accept", "C18.close_during_fanout", "C18.retained_refresh_large"]},
            # the same scenarios with the threads rotated in the opposite order: which accesses a happens-before
            # detector sees unordered depends on the order in which the explored run took the locks
            {"pkg": "service", "run": "H18_.*", "flags": {"common": ["-unwind", "3000", "-race", "-schedrev"]}, "reach": []},
            {"pkg": "service", "run": "H17_backpressure", "flags": {"common": ["-unwind", "100000", "-race"]}, "reach": []},
            {"pkg": "service", "run": "H17b_.*", "sched": True,
             "flags": {"common": ["-unwind", "64", "-sched", "explore", "-race"], "quick": ["-preempt", "1"], "thorough": ["-preempt", "2"]},
             "reach": ["C17.two_publishers"]},
            # ... and with packets above 5000 bytes (larger than any size threshold a scratch-buffer shortcut might use)
            {"pkg": "service", "run": "H17_two_large_writers", "sched": True,
             "flags": {"common": ["-unwind", "20000", "-sched", "explore", "-race"], "quick": ["-preempt", "1"], "thorough": ["-preempt", "2"]},
             "reach": ["C17.two_writers"]},
            # a ring closed by another goroutine while its consumer works on a block that straddles the end of the ring
            {"pkg": "service", "run": "H18_ring_close_vs_wrapped_consumer", "sched": True,
             "flags": {"common": ["-unwind", "64", "-sched", "explore", "-race"], "quick": ["-preempt", "1"], "thorough": ["-preempt", "2"]},
             "reach": ["C18.ring_close_vs_wrapped_consumer"]},
            # re-entrant use of the in-process API from delivery callbacks (see C01)
            {"pkg": "service", "run": "H01_unsubscribe_in_callback|H01_nested_publish", "flags": {"common": ["-unwind", "64", "-race"]}, "reach_any": ["C01.unsubscribe_in_callback", "C01.nested_publish"]},
            # Ack || Wait on a full wrapped ack queue, with the detector (see C13)
            {"pkg": "sessions", "run": "H13c_.*", "sched": True,
             "flags": {"common": ["-unwind", "40", "-sched", "explore", "-race"], "quick": ["-preempt", "2"], "thorough": ["-preempt", "3"]},
             "reach": ["C13.ack_during_wait"]},
            # two goroutines delivering to one connection, every interleaving at the synchronisation operations (see C17), with the detector
            {"pkg": "service", "run": "H17_two_writers", "sched": True,
             "flags": {"common": ["-unwind", "64", "-sched", "explore", "-race"], "quick": ["-preempt", "1"], "thorough": ["-preempt", "2"]},
             "reach": ["C17.two_writers"]},
        ],
        "bounds": {"quick": "scenario matrix H18_* (P1 retained update || subscribe, P2 delivery || teardown, P3 two publishers, P4 churn || fan-out, P6 session store || connect, P7 Server.Publish || traffic, P8 resumed session / takeover || publish, P9 in-process API from several goroutines, P11 Server.Close || a teardown in progress, P12 Server.Close || accept, P13 Server.Close || fan-out of a connection with a will, P14 ring Close || consumer on a wrapped block): canonical schedule, with the cross-connection interleavings that matter forced through hooks on the topic store (delivery to a connection during its own teardown); plus two writers to one connection under the exploring scheduler (preemption bound 1)", "thorough": "same"},
        "outside": ["operation pairs not in the matrix", "more than the threads of 3-4 connections", "races that need more than the explored interleavings to make both accesses occur"],
        "assumptions": [],
    },
    "C19": {
        "level_text": "the keep-alive K of the CONNECT (all 65536 values; 0 = the 30 s default), the starting instant and every gap between the client's packets are solver variables; the harness pipe records each SetReadDeadline: the armed deadline must lie between K s and 1.5 K s after the instant it was armed, and must have been re-armed for the very read that is pending; a client active at gaps below K (PINGREQ or PUBLISH, N steps) is never dropped and every PINGREQ is answered; when the armed deadline then passes, the connection is closed as failed and its will is published. Variants: the session is fresh or resumed after a DISCONNECT; the silence begins on a packet boundary or after 1 / 3 bytes of a packet; the client is a silent subscriber that still receives traffic (which must not re-arm the deadline); H19b: a dead subscriber whose outbound ring is full and blocks a publisher is still dropped. H19d_block_boundary: a client burst that ends exactly at, one byte before, one byte after the receiver's 8192-byte read block, or after exactly two blocks: the next read is armed afresh.",
        "level_note": "canonical schedule; the OS timer / net deadline implementation is replaced by the harness pipe (expiry is declared by the harness once the clock is past the armed deadline); arithmetic queries that z3 4.8.12 leaves unknown within 3 s are decided by cvc5 (--solve-bv-as-int=sum) / z3 5.1 on a self-contained script (counted in evidence)",
        "max_validate": {"quick": 6, "thorough": 12},
        "groups": [
            {"pkg": "service", "run": "H19_.*",
             "flags": {"common": ["-unwind", "64", "-qtimeout", "3000"], "quick": ["-bounds", "N19steps=3"], "thorough": ["-bounds", "N19steps=5"]},
             "reach": ["C19.done"]},
            {"pkg": "service", "run": "H19b_.*|H19c_.*|H19d_.*", "flags": {"common": ["-unwind", "100000"]}, "reach_any": ["C19.dead_subscriber_dropped", "C19.ping_during_large_publish"]},
            # a client that falls silent after a packet the connection can never take in (see C16; known finding)
            {"pkg": "service", "run": "H16_oversized_packet", "flags": {"common": ["-unwind", "100000", "-bounds", "N16ending=1"]}, "reach": ["C16.oversized_packet"]},
            # the abnormal end is complete for every kind of will (retained, empty, ...) and every ending (see C09)
            {"pkg": "service", "run": "H09_will", "flags": {"common": ["-unwind", "64"]}, "reach": ["C09.will_seen"]},
        ],
        "bounds": {"quick": "K: all 16-bit values; 3 activity steps with symbolic gaps below K and symbolic kind (PINGREQ / PUBLISH), then silence", "thorough": "5 activity steps"},
        "outside": ["real-time behaviour of the OS timer and net.Conn deadlines", "schedules other than canonical for the drop"],
        "assumptions": ["native replay of explored paths is skipped for this check (the native clock is real time); counterexamples are still replayed natively before being reported"],
    },
    "C20": {
        "level_text": "(a) the real Client.Connect (net.Dial and url.Parse intercepted; natively a loopback listener proxies to the same pipe) against a server that answers with an arbitrary byte string of 0..4 bytes and closes or stalls: nil iff the answer is a CONNACK with code 0, the refusal code as the error for codes 1..5, some error otherwise, connection closed and no interpreter thread left after a failure. (b) a client-role service with the real goroutines: Subscribe with a counting callback and a symbolic filter, scripted SUBACK with symbolic return code, K inbound packets each symbolically PUBLISH QoS 0/1/2 (symbolic topic, DUP, identifier) or PUBREL, then Unsubscribe and one more PUBLISH: callback invocations, acknowledgements written and completions are compared with the receive-side model. (c) two completed Subscribe requests with overlapping or equal filters, one of whose callbacks may return an error: each inbound message reaches each matching request's callback exactly once. (d) the step lemmas of the inbound QoS 2 queue (Wait / Acked from an arbitrary queue state, incl. growth while wrapped; see C13), on which the suppression of duplicates and the release order rest.",
        "level_note": "canonical schedule; ConnectTLS and real brokers outside; one filter per request; the goroutine-leak check exists only in the engine (interpreter threads)",
        "max_validate": {"quick": 80, "thorough": 200},
        "groups": [
            # the client's subscription store removes ALL callbacks of a filter (nil subscriber) when an unsubscribe completes:
            # deeper filters below that level stay (see C06)
            {"pkg": "topics", "run": "H06c_remove_all", "flags": {"common": ["-unwind", "40"]}, "reach": ["C06.remove_all"]},
            {"pkg": "service", "run": "H20_.*",
             "flags": {"common": ["-unwind", "64"], "quick": ["-bounds", "N20packets=2,N20levels=2"], "thorough": ["-bounds", "N20packets=3,N20levels=2"]},
             "reach_any": ["C20.connected", "C20.refused", "C20.garbage_answer", "C20.dispatched", "C20.done", "C20.two_requests", "C20.last_messages", "C20.reconnected"]},
            {"pkg": "sessions", "run": "H13_wait|H13_acked",
             "flags": {"common": ["-unwind", "40"], "quick": ["-bounds", "N13logsizes=2,N13ops=4"], "thorough": ["-bounds", "N13logsizes=2,N13ops=4"]},
             "reach": []},
            # the queue at a session's real size with 17..260 requests in flight after 0..17 completed ones (growth while wrapped at 16..256 slots)
            {"pkg": "sessions", "run": "H13p_many", "flags": {"common": ["-unwind", "1000"]}, "reach": ["C13.many"]},
            # the receive path shared with the broker role: framing of inbound packets for any header bytes, and
            # inbound traffic that laps the receive ring while a hand-over is held up
            {"pkg": "service", "run": "H17_peeksize", "flags": {"common": ["-unwind", "40"]}, "reach": ["C17.peeksize"]},
            {"pkg": "service", "run": "H17_backpressure", "flags": {"common": ["-unwind", "100000"]}, "reach": []},
        ],
        "bounds": {"quick": "CONNACK answer: any 0..4 bytes, server closes or stalls; dispatch: filter and topics of 1..2 levels, 2 inbound packets", "thorough": "3 inbound packets"},
        "outside": ["ConnectTLS", "several filters per request", "real TCP timing"],
        "assumptions": [],
    },
    "C04": {
        "level_text": "each decoder is executed symbolically on an input whose length (0..N) and every byte are solver variables, cap == len, so every index/slice instruction is a proof obligation; acceptance of every well-formed exact frame is checked against the reference decoder. Complete for all inputs up to N bytes. In addition (H04b) PUBLISH, SUBSCRIBE, SUBACK and UNSUBSCRIBE packets whose remaining length is 126..130 and 16382..16385 (a concrete filler plus a symbolic 1..3-byte tail element) must decode to the reference fields and size and re-encode to the same bytes. H04b_truncated_large: the same large packets with the last 1..4 bytes missing must be refused without touching anything behind the input.",
        "level_note": "trusted: go/ssa + engine semantics (cross-checked natively on every explored path), z3, the reference decoder; inputs longer than N bytes are outside the claim",
        "groups": [
            {"pkg": "message", "run": "H04_.*",
             "flags": {"common": ["-unwind", "40"],
                       "quick": ["-bounds", "N04=12,N04suback=7,N04connect=18"],
                       "thorough": ["-bounds", "N04=16,N04suback=10,N04connect=26"]},
             "reach": ["C04.returned"]},
            {"pkg": "message", "run": "H04a_.*",
             "flags": {"common": ["-unwind", "40"],
                       "quick": ["-bounds", "N04a=17,N04asuback=7,N04aconnect=18"],
                       "thorough": ["-bounds", "N04a=20,N04asuback=10,N04aconnect=26"]},
             "reach": ["C04.wellformed"]},
            {"pkg": "message", "run": "H04b_.*", "flags": {"common": ["-unwind", "40000"]}, "reach": ["C04.large"]},
        ],
        "bounds": {"quick": "input length 0..12 bytes (SUBACK 0..7, CONNECT 0..18), all byte values, cap==len; boundary sizes 126..130 / 16382..16385 with a symbolic tail",
                   "thorough": "input length 0..16 bytes (SUBACK 0..10, CONNECT 0..26), all byte values, cap==len"},
        "outside": ["inputs longer than the bound (length arithmetic for long packets is covered by C03's header/length harnesses)",
                    "acceptance half: packets outside the strict region of the reference decoder (non-minimal length encodings, packet id 0, reserved CONNECT combinations) are don't-care for acceptance, never for totality"],
        "assumptions": ["oracle for 'valid packets accepted': reference decoder harness/spec/speccodec.go (strict region, exact frame)"],
    },
}
