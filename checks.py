# Per-property check specifications used by ./vcheck.
# groups: engine runs (package, harness regexp, engine flags per tier, vacuity witnesses).

COMMON_ASSUMPTIONS = [
    "symbolic execution of go/ssa built from /repo's current working tree (rebuilt on every run); the SSA builder (x/tools v0.29.0) and the engine's instruction semantics are trusted, and cross-checked on every run by re-running each explored path's solver model through the natively compiled code (translator validation)",
    "z3 4.8.12 decides every feasibility query and obligation; unknown / error / timeout makes the run INCONCLUSIVE",
    "append growth follows a doubling policy; map iteration in insertion order (and reverse order where a check says so)",
    "a violation is reported only after the solver's counterexample reproduced against the native build (go test -overlay)",
]

NOT_APPLICABLE = {
    "C16": "liveness over fault sequences and all interleavings of >= 4 goroutines per connection blocked in socket calls and in each other's rings: outside bounded symbolic execution (DESIGN.md section 6); the ring-level mechanisms teardown relies on are decided under C15",
}

CHECKS = {
    "C03": {
        "level_text": "every path of the real encoders/decoders (message package SSA) for all field values / input bytes within the byte bounds is executed symbolically against a reference codec written from the standard; length arithmetic of the fixed header for all 2^32 values; packet-id allocation as one inductive step from an arbitrary counter. Bounded model checking: complete inside the bounds, silent outside.",
        "level_note": "trusted: go/ssa + engine semantics (cross-checked natively on every explored path), z3, the reference codec (harness/spec/speccodec.go); strings/payloads longer than the bounds are outside the claim",
        "groups": [
            {"pkg": "message", "run": "H03a_.*|H03d_.*", "flags": {"common": ["-unwind", "40"]}},
            {"pkg": "message", "run": "H03b_.*",
             "flags": {"common": ["-unwind", "40"],
                       "quick": ["-bounds", "N03str=2,N03payload=3,N03topics=3,N03utopics=4,N03codes=4"],
                       "thorough": ["-bounds", "N03str=3,N03payload=6,N03topics=4,N03utopics=5,N03codes=6"]},
             "reach": ["C03.roundtrip"]},
            {"pkg": "message", "run": "H03c_.*",
             "flags": {"common": ["-unwind", "40"],
                       "quick": ["-bounds", "N03c=9,N03csub=12,N03csuback=7,N03cconnect=18"],
                       "thorough": ["-bounds", "N03c=14,N03csub=17,N03csuback=9,N03cconnect=24"]},
             "reach": ["C03.accepted", "C03.wellformed"]},
            {"pkg": "message", "run": "H03f_.*",
             "flags": {"common": ["-unwind", "40"],
                       "quick": ["-bounds", "N03f=10"],
                       "thorough": ["-bounds", "N03f=14"]}},
        ],
        "bounds": {"quick": "header: all 2^32 remaining-length values x 14 types; setters->encode->decode: strings <= 2 bytes, payload <= 3, <= 3 SUBSCRIBE / 4 UNSUBSCRIBE filters, <= 4 return codes; decode->encode: every accepted exact frame of <= 9 bytes (CONNECT 18, (UN)SUBSCRIBE 12, SUBACK 7); automatic ids: every value of the 64-bit counter",
                   "thorough": "as quick with strings <= 3, payload <= 6, 4/5 filters, 6 codes; frames <= 14 bytes (CONNECT 24, (UN)SUBSCRIBE 17, SUBACK 9)"},
        "outside": ["string/payload contents beyond the byte bounds (lengths 127/128/16383/16384/65535 of LP strings and payloads are not executed byte-by-byte; the remaining-length arithmetic is covered for all values by H03a_header)",
                    "more topic filters per packet than the bound",
                    "CONNECT with user-name/password flag set and zero-length value (library documents 3.1 leniency): don't-care for the field-based re-encoding"],
        "assumptions": ["oracle: reference codec harness/spec/speccodec.go written from MQTT 3.1.1 sections 2-3 (no code shared with the library)"],
    },
    "C06": {
        "level_text": "the real MemTopics code (Subscribe/Unsubscribe/Subscribers/Retain/Retained, the trie and nextTopicLevel) is executed symbolically: byte-level filter x topic pairs with every byte a solver variable (all malformed filters included), and level-structured histories whose literal values and coincidences are the solver's choice; oracle = section 4.7 matching as a branch-free dynamic programme. Complete inside the bounds.",
        "level_note": "trusted: engine + z3 + the matching oracle (harness/spec/specnames.go); map iteration order = insertion order (reverse order in the thorough tier); subscribers are pointer values; names longer / histories deeper than the bounds are outside the claim",
        "groups": [
            {"pkg": "topics", "run": "H06a_.*|H06b_.*",
             "flags": {"common": ["-unwind", "40"],
                       "quick": ["-bounds", "N06len=3,N06split=5"],
                       "thorough": ["-bounds", "N06len=4,N06split=7"]},
             "reach": ["C06.matched", "C06.unmatched"], "reach_for": "H06b_.*"},
            {"pkg": "topics", "run": "H06c_.*|H06d_.*",
             "flags": {"common": ["-unwind", "40"],
                       "quick": ["-bounds", "N06levels=2,N06ops=2,N06rops=3,N06validonly=1"],
                       "thorough": ["-bounds", "N06levels=2,N06ops=3,N06rops=3,N06validonly=0"]}},
            {"pkg": "topics", "run": "H06c_.*", "tiers": ["thorough"],
             "flags": {"thorough": ["-unwind", "40", "-revmaps", "-bounds", "N06levels=2,N06ops=2,N06rops=3,N06validonly=1"]}},
        ],
        "bounds": {"quick": "byte-level: filter and topic of 1..3 arbitrary bytes each (not starting with '$'), all QoS / max-QoS values; splitter: names of 1..5 bytes; histories: 2 subscribers x 2 filters of 1..2 levels (tokens literal byte / + / #, literal values symbolic), 2 operations + lookup; retained: 2 topics, 3 operations + lookup",
                   "thorough": "byte-level 1..4 bytes; splitter 1..7; histories of 3 operations incl. invalid filters, also with reversed map iteration order"},
        "outside": ["names longer than the bounds, more than 2 levels in histories, more than 2 subscribers/filters/topics", "subscriber kinds other than pointers", "map iteration orders other than insertion / reverse insertion"],
        "assumptions": ["oracle: harness/spec/specnames.go (MQTT 3.1.1 section 4.7; '#' matches parent; empty levels literal)"],
    },
    "C04": {
        "level_text": "each decoder is executed symbolically on an input whose length (0..N) and every byte are solver variables, cap == len, so every index/slice instruction is a proof obligation; acceptance of every well-formed exact frame is checked against the reference decoder. Complete for all inputs up to N bytes.",
        "level_note": "trusted: go/ssa + engine semantics (cross-checked natively on every explored path), z3, the reference decoder; inputs longer than N bytes are outside the claim",
        "groups": [
            {"pkg": "message", "run": "H04_.*",
             "flags": {"common": ["-unwind", "40"],
                       "quick": ["-bounds", "N04=10,N04suback=7,N04connect=18"],
                       "thorough": ["-bounds", "N04=16,N04suback=10,N04connect=26"]},
             "reach": ["C04.returned"]},
            {"pkg": "message", "run": "H04a_.*",
             "flags": {"common": ["-unwind", "40"],
                       "quick": ["-bounds", "N04a=17,N04asuback=7,N04aconnect=18"],
                       "thorough": ["-bounds", "N04a=20,N04asuback=10,N04aconnect=26"]},
             "reach": ["C04.wellformed"]},
        ],
        "bounds": {"quick": "input length 0..10 bytes (SUBACK 0..7, CONNECT 0..18), all byte values, cap==len",
                   "thorough": "input length 0..16 bytes (SUBACK 0..10, CONNECT 0..26), all byte values, cap==len"},
        "outside": ["inputs longer than the bound (length arithmetic for long packets is covered by C03's header/length harnesses)",
                    "acceptance half: packets outside the strict region of the reference decoder (non-minimal length encodings, packet id 0, reserved CONNECT combinations) are don't-care for acceptance, never for totality"],
        "assumptions": ["oracle for 'valid packets accepted': reference decoder harness/spec/speccodec.go (strict region, exact frame)"],
    },
}
