#!/usr/bin/env python3
"""Regenerates the table of DESIGN.md section 9.3 from checks.py (groups of the quick tier) and evidence/*.json (last run)."""
import json, os, re, sys
sys.path.insert(0, os.path.dirname(os.path.abspath(__file__)))
from checks import CHECKS
rows = ["| id | harness groups of the quick tier (run regex [package; scheduler, options]) | paths | obligations discharged | wall |", "|---|---|---|---|---|"]
for pid in sorted(CHECKS):
    gs = []
    for g in CHECKS[pid]["groups"]:
        if "tiers" in g and "quick" not in g["tiers"]:
            continue
        fl = g.get("flags", {}).get("common", []) + g.get("flags", {}).get("quick", [])
        opts = [g["pkg"]]
        if "-sched" in fl:
            opts.append(fl[fl.index("-sched") + 1] + ("; preempt " + fl[fl.index("-preempt") + 1] if "-preempt" in fl else ""))
        if "-race" in fl:
            opts.append("race")
        if "-schedrev" in fl:
            opts.append("rev")
        gs.append("%s [%s]" % (g["run"].replace("|", " / "), ", ".join(opts)))
    ev = {}
    try:
        ev = json.load(open("/verif/evidence/%s.json" % pid))
    except Exception:
        pass
    c = ev.get("coverage", {})
    rows.append("| %s | %s | %s | %s/%s | %s s |" % (pid, "<br>".join(gs), c.get("states", "?"), c.get("discharged", "?"), c.get("obligations", "?"), round(ev.get("wall_s", 0))))
p = "/verif/DESIGN.md"
s = open(p).read()
a = s.index("| id | harness groups of the quick tier")
b = s.index("\n\nEvery run rebuilds SSA", a)
s = s[:a] + "\n".join(rows) + s[b:]
open(p, "w").write(s)
print("9.3 regenerated:", len(rows) - 2, "rows")
