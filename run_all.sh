#!/bin/bash
# run_all.sh <tier> [props...]: runs the checks one after the other, prints one line per check
tier=${1:-quick}; shift
props=${@:-C01 C02 C03 C04 C05 C06 C07 C08 C09 C10 C11 C12 C13 C14 C15 C16 C17 C18 C19 C20}
cd "$(dirname "$0")"
for p in $props; do
  s=$(date +%s)
  out=$(./vcheck $p --tier $tier 2>/dev/null | grep -E "^(PASS|VIOLATION|INCONCLUSIVE|KNOWN)" | cut -c1-220)
  rc=$?
  e=$(date +%s)
  echo "== $p tier=$tier $((e-s))s"
  echo "$out"
done
