package main

// One execution path: decision prefix to follow, path condition, solver
// interaction (feasibility of branches, concretisation, obligations).

import (
	"fmt"
	"os"
	"os/exec"
	"sort"
	"strings"
)

type Decision struct {
	K      byte   // 'b' branch, 'c' concretise, 's' schedule choice
	B      bool   // branch direction
	V      uint64 // concretised value / chosen thread
	Forced bool   // only one alternative was feasible
}

func (d Decision) String() string {
	f := ""
	if d.Forced {
		f = "!"
	}
	switch d.K {
	case 'b':
		if d.B {
			return "T" + f
		}
		return "F" + f
	case 'c':
		return fmt.Sprintf("c%d%s", d.V, f)
	case 'o':
		return "o"
	case 'q':
		return "q"
	default:
		return fmt.Sprintf("s%d%s", d.V, f)
	}
}

type Violation struct {
	Harness string           `json:"harness"`
	Kind    string           `json:"kind"` // assert | panic | deadlock | race | leak
	Name    string           `json:"name"`
	Detail  string           `json:"detail,omitempty"`
	Model   map[string]uint64 `json:"model"`
	Trace   string           `json:"trace"`
	Sched   []int            `json:"sched,omitempty"`
}

type abortPath struct{ reason string } // Assume failed / path ended deliberately
type inconclusive struct{ reason string }
type killThread struct{}

type Path struct {
	w      *Worker
	pool   *Pool
	solver *Solver
	prefix []Decision
	pos    int
	trace  []Decision
	pc     []*Term
	sent   int
	known  map[*Term]bool
	alts   [][]Decision
	vars   map[string]int
	order  []string // creation order of vars
	pr     Printer

	obligations int
	discharged  int
	violations  []Violation
	inconcl     []string
	reached     map[string]bool
	observes    []observe
	steps       int64
	maxConcr    int
	curHarness  string
	loopHits    map[string]int
	bounds      map[string]int64
	model       Model // a model of pc (nil = unknown)
}


func (p *Path) begin() {
	p.solver.Send("(push 1)")
}

func (p *Path) end() {
	p.solver.Send("(pop 1)")
}

func (p *Path) NewVar(name string, w int) *Term {
	if _, ok := p.vars[name]; ok {
		// same name requested twice (e.g. in a loop): make it unique
		for i := 2; ; i++ {
			n := fmt.Sprintf("%s#%d", name, i)
			if _, ok := p.vars[n]; !ok {
				name = n
				break
			}
		}
	}
	p.vars[name] = w
	p.order = append(p.order, name)
	p.solver.Send(fmt.Sprintf("(declare-const %s %s)", smtName(name), sortStr(w)))
	return p.pool.Var(name, w)
}

func (p *Path) flush() {
	for ; p.sent < len(p.pc); p.sent++ {
		p.solver.Send("(assert " + p.pr.Print(p.pc[p.sent]) + ")")
	}
}

func (p *Path) learn(c *Term, v bool) {
	p.known[c] = v
	switch c.Op {
	case OpBNot:
		p.learn(c.Args[0], !v)
	case OpBAnd:
		if v {
			p.learn(c.Args[0], true)
			p.learn(c.Args[1], true)
		}
	case OpBOr:
		if !v {
			p.learn(c.Args[0], false)
			p.learn(c.Args[1], false)
		}
	}
}

func (p *Path) addPC(c *Term) {
	if c.IsTrue() {
		return
	}
	if p.model != nil && c.Eval(p.model, map[*Term]uint64{}) != 1 {
		p.model = nil
	}
	p.pc = append(p.pc, c)
	p.learn(c, true)
}

func (p *Path) lookup(c *Term) (bool, bool) {
	if c.IsConst() {
		return c.Val == 1, true
	}
	if v, ok := p.known[c]; ok {
		return v, true
	}
	switch c.Op {
	case OpBNot:
		if v, ok := p.lookup(c.Args[0]); ok {
			return !v, true
		}
	case OpBAnd:
		a, oka := p.lookup(c.Args[0])
		b, okb := p.lookup(c.Args[1])
		if (oka && !a) || (okb && !b) {
			return false, true
		}
		if oka && okb {
			return true, true
		}
	case OpBOr:
		a, oka := p.lookup(c.Args[0])
		b, okb := p.lookup(c.Args[1])
		if (oka && a) || (okb && b) {
			return true, true
		}
		if oka && okb {
			return false, true
		}
	}
	return false, false
}

// query: is pc ∧ c satisfiable? With wantModel the model is returned on sat.
func (p *Path) query(c *Term, wantModel bool) (SatResult, Model) {
	p.flush()
	p.solver.Send("(push 1)")
	p.solver.Send("(assert " + p.pr.Print(c) + ")")
	r := p.solver.Check()
	var m Model
	if r == Sat && wantModel {
		var ok bool
		m, ok = p.solver.GetValues(p.vars)
		if !ok {
			r = Unknown
		}
	}
	p.solver.Send("(pop 1)")
	if r == Unknown {
		// second opinion from the other solvers on a self-contained script
		if r2, m2 := p.fallback(c, wantModel); r2 != Unknown {
			p.w.fallbacks++
			return r2, m2
		}
		p.inconcl = append(p.inconcl, "solver unknown/error: "+p.solver.LastErr)
	}
	return r, m
}

// dumpObligation writes every n-th decided obligation as a stand-alone script whose
// first line records z3's verdict, for the cross-solver comparison done by the driver.
func (p *Path) dumpObligation(name string, negated *Term, verdict SatResult) {
	w := p.w
	if w.cfg.DumpDir == "" || verdict == Unknown {
		return
	}
	w.oblCount++
	if w.cfg.DumpEvery > 1 && w.oblCount%w.cfg.DumpEvery != 0 {
		return
	}
	if w.dumped >= w.cfg.DumpMax {
		return
	}
	w.dumped++
	var sb strings.Builder
	sb.WriteString(fmt.Sprintf("; expect %s ; harness %s ; obligation %s\n(set-logic ALL)\n", verdict, p.curHarness, name))
	names := make([]string, 0, len(p.vars))
	for n := range p.vars {
		names = append(names, n)
	}
	sort.Strings(names)
	for _, n := range names {
		sb.WriteString(fmt.Sprintf("(declare-const %s %s)\n", smtName(n), sortStr(p.vars[n])))
	}
	pr := Printer{}
	for _, t := range p.pc {
		sb.WriteString("(assert " + pr.Print(t) + ")\n")
	}
	sb.WriteString("(assert " + pr.Print(negated) + ")\n(check-sat)\n")
	os.WriteFile(fmt.Sprintf("%s/w%d-%d.smt2", w.cfg.DumpDir, w.id, w.dumped), []byte(sb.String()), 0o644)
}

// fallback re-submits pc ∧ c as a stand-alone script to z3 5.x and to cvc5
// (with the integer encoding of bit-vector arithmetic), each under a longer limit.
func (p *Path) fallback(c *Term, wantModel bool) (SatResult, Model) {
	var sb strings.Builder
	sb.WriteString("(set-option :produce-models true)\n(set-logic ALL)\n")
	names := make([]string, 0, len(p.vars))
	for n := range p.vars {
		names = append(names, n)
	}
	sort.Strings(names)
	for _, n := range names {
		sb.WriteString(fmt.Sprintf("(declare-const %s %s)\n", smtName(n), sortStr(p.vars[n])))
	}
	pr := Printer{}
	for _, t := range p.pc {
		sb.WriteString("(assert " + pr.Print(t) + ")\n")
	}
	sb.WriteString("(assert " + pr.Print(c) + ")\n(check-sat)\n")
	if wantModel && len(names) > 0 {
		sb.WriteString("(get-value (")
		for _, n := range names {
			sb.WriteString(smtName(n) + " ")
		}
		sb.WriteString("))\n")
	}
	f, err := os.CreateTemp("", "gosmt-fallback-*.smt2")
	if err != nil {
		return Unknown, nil
	}
	defer os.Remove(f.Name())
	f.WriteString(sb.String())
	f.Close()
	limit := p.w.cfg.FallbackSec
	if limit == 0 {
		limit = 60
	}
	for _, cmd := range [][]string{
		{"cvc5", "--solve-bv-as-int=sum", "--produce-models", fmt.Sprintf("--tlimit=%d", limit*1000), f.Name()},
		{"z3-new", fmt.Sprintf("-T:%d", limit), f.Name()},
		{"cvc5", "--produce-models", fmt.Sprintf("--tlimit=%d", limit*1000), f.Name()},
	} {
		out, _ := exec.Command(cmd[0], cmd[1:]...).CombinedOutput()
		txt := string(out)
		if strings.Contains(txt, "(error") && !strings.HasPrefix(strings.TrimSpace(txt), "sat") && !strings.HasPrefix(strings.TrimSpace(txt), "unsat") {
			continue
		}
		lines := strings.SplitN(strings.TrimSpace(txt), "\n", 2)
		switch strings.TrimSpace(lines[0]) {
		case "unsat":
			return Unsat, nil
		case "sat":
			if !wantModel {
				return Sat, nil
			}
			m := Model{}
			if len(lines) == 2 && parseValues(lines[1], m) {
				return Sat, m
			}
		}
	}
	return Unknown, nil
}

func (p *Path) replaying() bool { return p.pos < len(p.prefix) }

func (p *Path) record(d Decision) {
	p.trace = append(p.trace, d)
	p.pos++
}

func (p *Path) altWith(d Decision) {
	a := make([]Decision, len(p.trace)+1)
	copy(a, p.trace)
	a[len(p.trace)] = d
	p.alts = append(p.alts, a)
}

// Branch decides a symbolic condition, forking when both sides are feasible.
func (p *Path) Branch(c *Term) bool {
	if c.W != 0 {
		panic("Branch on non-bool")
	}
	if v, ok := p.lookup(c); ok {
		return v
	}
	if p.replaying() {
		d := p.prefix[p.pos]
		if d.K != 'b' {
			panic(inconclusive{fmt.Sprintf("replay divergence: expected branch decision at %d, have %v", p.pos, d)})
		}
		p.record(d)
		if d.Forced {
			p.learn(c, d.B)
		} else if d.B {
			p.addPC(c)
		} else {
			p.addPC(p.pool.BNot(c))
		}
		return d.B
	}
	nc := p.pool.BNot(c)
	if p.model != nil {
		// the cached model of the path condition shows one side feasible for free
		mv := c.Eval(p.model, map[*Term]uint64{}) == 1
		other := nc
		if !mv {
			other = c
		}
		ro, mo := p.query(other, true)
		if ro == Unsat {
			p.record(Decision{K: 'b', B: mv, Forced: true})
			p.learn(c, mv)
			return mv
		}
		p.altWith(Decision{K: 'b', B: false})
		p.record(Decision{K: 'b', B: true})
		p.addPC(c)
		if !mv {
			p.model = mo // model of pc ∧ c
		}
		return true
	}
	rt, mt := p.query(c, true)
	if rt == Unsat {
		p.record(Decision{K: 'b', B: false, Forced: true})
		p.learn(c, false)
		return false
	}
	rf, _ := p.query(nc, false)
	if rf == Unsat {
		p.record(Decision{K: 'b', B: true, Forced: true})
		p.learn(c, true)
		if rt == Sat {
			p.model = mt
		}
		return true
	}
	p.altWith(Decision{K: 'b', B: false})
	p.record(Decision{K: 'b', B: true})
	p.addPC(c)
	if rt == Sat {
		p.model = mt
	}
	return true
}

// Concretize forks over the feasible values of t (bounded).
func (p *Path) Concretize(t *Term, what string) uint64 {
	if t.IsConst() {
		return t.Val
	}
	if p.replaying() {
		d := p.prefix[p.pos]
		if d.K != 'c' {
			panic(inconclusive{fmt.Sprintf("replay divergence: expected concretise decision at %d, have %v", p.pos, d)})
		}
		p.record(d)
		eq := p.pool.Cmp(OpEq, t, p.pool.BV(d.V, t.W))
		if d.Forced {
			p.learn(eq, true)
		} else {
			p.addPC(eq)
		}
		return d.V
	}
	limit := p.maxConcr
	if limit == 0 {
		limit = 1024
	}
	p.flush()
	p.solver.Send("(push 1)")
	ts := p.pr.Print(t)
	var vals []uint64
	for {
		r := p.solver.Check()
		if r == Unknown {
			p.solver.Send("(pop 1)")
			panic(inconclusive{"solver unknown while concretising " + what})
		}
		if r == Unsat {
			break
		}
		p.solver.Send("(get-value (" + ts + "))")
		resp := p.solver.readSexp()
		// response: ((<term> <value>))
		resp = strings.TrimSpace(resp)
		i := strings.LastIndexAny(resp, "#")
		var v uint64
		ok := false
		if i >= 0 {
			j := i
			for j < len(resp) && resp[j] != ')' && resp[j] != ' ' {
				j++
			}
			v, ok = parseValue(resp[i:j])
		} else if k := strings.LastIndex(resp, "(_ bv"); k >= 0 {
			v, ok = parseValue(resp[k:])
		}
		if !ok {
			p.solver.Send("(pop 1)")
			panic(inconclusive{"cannot parse value while concretising: " + resp})
		}
		vals = append(vals, v)
		if len(vals) > limit {
			p.solver.Send("(pop 1)")
			panic(inconclusive{fmt.Sprintf("concretisation of %s exceeds %d values", what, limit)})
		}
		p.solver.Send(fmt.Sprintf("(assert (not (= %s (_ bv%d %d))))", ts, v, t.W))
	}
	p.solver.Send("(pop 1)")
	if len(vals) == 0 {
		panic(abortPath{"infeasible at concretisation"})
	}
	sort.Slice(vals, func(i, j int) bool { return vals[i] < vals[j] })
	v := vals[0]
	eq := p.pool.Cmp(OpEq, t, p.pool.BV(v, t.W))
	if len(vals) == 1 {
		p.record(Decision{K: 'c', V: v, Forced: true})
		p.learn(eq, true)
		return v
	}
	for _, o := range vals[1:] {
		p.altWith(Decision{K: 'c', V: o})
	}
	p.record(Decision{K: 'c', V: v})
	p.addPC(eq)
	return v
}

// FewValues decides (and records, so that replays agree) whether t has at most k
// feasible values under the path condition.
func (p *Path) FewValues(t *Term, k int) bool {
	if t.IsConst() {
		return true
	}
	if p.replaying() {
		d := p.prefix[p.pos]
		if d.K != 'q' {
			panic(inconclusive{fmt.Sprintf("replay divergence: expected few-values record at %d, have %v", p.pos, d)})
		}
		p.record(d)
		return d.B
	}
	p.flush()
	p.solver.Send("(push 1)")
	ts := p.pr.Print(t)
	n := 0
	few := true
	for {
		r := p.solver.Check()
		if r == Unknown {
			p.solver.Send("(pop 1)")
			panic(inconclusive{"solver unknown while counting values"})
		}
		if r == Unsat {
			break
		}
		n++
		if n > k {
			few = false
			break
		}
		p.solver.Send("(get-value (" + ts + "))")
		resp := strings.TrimSpace(p.solver.readSexp())
		i := strings.LastIndexAny(resp, "#")
		if i < 0 {
			p.solver.Send("(pop 1)")
			panic(inconclusive{"cannot parse value while counting: " + resp})
		}
		j := i
		for j < len(resp) && resp[j] != ')' && resp[j] != ' ' {
			j++
		}
		v, ok := parseValue(resp[i:j])
		if !ok {
			p.solver.Send("(pop 1)")
			panic(inconclusive{"cannot parse value while counting: " + resp})
		}
		p.solver.Send(fmt.Sprintf("(assert (not (= %s (_ bv%d %d))))", ts, v, t.W))
	}
	p.solver.Send("(pop 1)")
	p.record(Decision{K: 'q', B: few, Forced: true})
	return few
}

// Choose is a non-data decision among n alternatives (scheduler).
func (p *Path) Choose(n int) int {
	if n <= 1 {
		return 0
	}
	if p.replaying() {
		d := p.prefix[p.pos]
		if d.K != 's' {
			panic(inconclusive{fmt.Sprintf("replay divergence: expected schedule decision at %d, have %v", p.pos, d)})
		}
		p.record(d)
		return int(d.V)
	}
	for i := 1; i < n; i++ {
		p.altWith(Decision{K: 's', V: uint64(i)})
	}
	p.record(Decision{K: 's', V: 0})
	return 0
}

func (p *Path) Assume(c *Term) {
	if v, ok := p.lookup(c); ok {
		if !v {
			panic(abortPath{"assume false"})
		}
		return
	}
	if p.replaying() {
		// feasibility was established when the prefix was first explored
		p.addPC(c)
		return
	}
	r, _ := p.query(c, false)
	if r == Unsat {
		panic(abortPath{"assume infeasible"})
	}
	p.addPC(c)
}

func (p *Path) traceString() string {
	var sb strings.Builder
	for _, d := range p.trace {
		if d.Forced {
			continue
		}
		sb.WriteString(d.String())
		sb.WriteByte(' ')
	}
	return strings.TrimSpace(sb.String())
}

func (p *Path) addViolation(kind, name, detail string, m Model) {
	p.violations = append(p.violations, Violation{Harness: p.curHarness, Kind: kind, Name: name, Detail: detail, Model: m, Trace: p.traceString()})
}

// Obligation: c must hold on this path for every assignment.
func (p *Path) Obligation(name string, c *Term) {
	if v, ok := p.lookup(c); ok && v {
		p.obligations++
		p.discharged++
		return
	}
	if p.replaying() {
		// already decided when the prefix was first explored
		d := p.prefix[p.pos]
		if d.K != 'o' {
			panic(inconclusive{fmt.Sprintf("replay divergence: expected obligation record at %d, have %v", p.pos, d)})
		}
		p.record(d)
		if d.B {
			if c.IsFalse() {
				panic(abortPath{"assertion fails on whole path"})
			}
			p.addPC(c)
		} else {
			p.learn(c, true)
		}
		return
	}
	p.obligations++
	nc := p.pool.BNot(c)
	r, m := p.query(nc, true)
	p.dumpObligation(name, nc, r)
	switch r {
	case Unsat:
		p.discharged++
		p.record(Decision{K: 'o', B: false, Forced: true})
		p.learn(c, true)
	case Sat:
		p.addViolation("assert", name, "", m)
		p.record(Decision{K: 'o', B: true, Forced: true})
		// continue on the side where the assertion holds, if any
		if c.IsFalse() {
			panic(abortPath{"assertion fails on whole path"})
		}
		r2, _ := p.query(c, false)
		if r2 == Unsat {
			panic(abortPath{"assertion fails on whole path"})
		}
		p.addPC(c)
	default:
		// inconclusive (recorded by query); continue assuming it holds
		p.record(Decision{K: 'o', B: true, Forced: true})
		p.addPC(c)
	}
}

// CurrentModel returns a model of the path condition.
func (p *Path) CurrentModel() (Model, bool) {
	p.flush()
	r := p.solver.Check()
	if r != Sat {
		if r == Unknown {
			p.inconcl = append(p.inconcl, "solver unknown at path end")
		}
		return nil, false
	}
	return p.solver.GetValues(p.vars)
}
