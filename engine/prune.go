package main

// `gosmt prune`: graceful degradation when a harness no longer compiles against the tree.
//
// The harnesses are in-package Go and some of them name unexported identifiers of the
// library (the fields of the ack queue's ring, header.msglen, ...). A behaviour-preserving
// refactoring that renames such an identifier makes the overlaid package fail to
// type-check. That is not a verdict about the property, and it must not take down the
// harnesses that only use what still exists. prune type-checks the package with the
// overlay, removes every top-level declaration OF THE HARNESS FILES that contains a type
// error (and, round by round, the declarations that referred to a removed one), and
// writes the remaining harness sources plus a list of what was removed and why. Files of
// the repository itself are never touched: an error there is reported and ends the run.

import (
	"encoding/json"
	"flag"
	"fmt"
	"go/ast"
	"go/parser"
	"go/token"
	"os"
	"path/filepath"
	"regexp"
	"sort"
	"strconv"
	"strings"

	"golang.org/x/tools/go/packages"
)

type prunedDecl struct {
	File   string `json:"file"`
	Name   string `json:"name"`
	Reason string `json:"reason"`
	Text   string `json:"text"`
	Round  int    `json:"round"`
}

var errPosRe = regexp.MustCompile(`^(.*?):(\d+):(\d+)$`)

func pruneMain(args []string) {
	fs := flag.NewFlagSet("prune", flag.ExitOnError)
	repo := fs.String("repo", "/repo", "repository root")
	pkg := fs.String("pkg", "message", "package directory under the repo")
	hdir := fs.String("harnessdir", "", "directory with harness .go files")
	extra := fs.String("extra", "", "comma-separated extra files (rt, spec)")
	outdir := fs.String("outdir", "", "where the pruned copies are written")
	fs.Parse(args)

	type hfile struct {
		src  string // original path
		virt string // path inside the repo package
		text string
	}
	var files []*hfile
	add := func(f string) {
		b, err := os.ReadFile(f)
		if err != nil {
			fmt.Fprintln(os.Stderr, "gosmt prune:", err)
			os.Exit(2)
		}
		t := strings.ReplaceAll(string(b), "package PKGNAME", "package "+filepath.Base(*pkg))
		files = append(files, &hfile{src: f, virt: filepath.Join(*repo, *pkg, "zz_verif_"+filepath.Base(f)), text: t})
	}
	if *hdir != "" {
		fl, _ := filepath.Glob(filepath.Join(*hdir, "*.go"))
		sort.Strings(fl)
		for _, f := range fl {
			if !strings.HasSuffix(f, "_test.go") {
				add(f)
			}
		}
	}
	for _, f := range strings.Split(*extra, ",") {
		if f != "" {
			add(f)
		}
	}
	byVirt := map[string]*hfile{}
	for _, f := range files {
		byVirt[f.virt] = f
	}
	var removed []prunedDecl
	fail := func(msg string) {
		fmt.Fprintln(os.Stderr, "gosmt prune:", msg)
		os.Exit(2)
	}
	for round := 1; ; round++ {
		if round > 12 {
			fail("no fixpoint after 12 rounds")
		}
		overlay := map[string][]byte{}
		for _, f := range files {
			overlay[f.virt] = []byte(f.text)
		}
		cfg := &packages.Config{
			Mode:       packages.NeedName | packages.NeedFiles | packages.NeedCompiledGoFiles | packages.NeedImports | packages.NeedDeps | packages.NeedTypes | packages.NeedSyntax | packages.NeedTypesInfo,
			Dir:        *repo,
			BuildFlags: []string{"-tags=verif"},
			Overlay:    overlay,
			Env:        append(os.Environ(), "GOFLAGS=-mod=mod", "GOPROXY=off", "GOSUMDB=off", "GOTOOLCHAIN=local"),
		}
		pkgs, err := packages.Load(cfg, "./"+*pkg)
		if err != nil {
			fail(err.Error())
		}
		var errs []packages.Error
		packages.Visit(pkgs, nil, func(p *packages.Package) { errs = append(errs, p.Errors...) })
		if len(errs) == 0 {
			break
		}
		// error positions -> declarations of harness files
		type mark struct{ lo, hi int; name, reason string }
		marks := map[*hfile][]mark{}
		progress := false
		for _, e := range errs {
			m := errPosRe.FindStringSubmatch(e.Pos)
			if m == nil {
				fail("error without position: " + e.Error())
			}
			hf := byVirt[m[1]]
			if hf == nil {
				fail("the repository's own sources do not type-check: " + e.Error())
			}
			line, _ := strconv.Atoi(m[2])
			fset := token.NewFileSet()
			af, perr := parser.ParseFile(fset, hf.virt, hf.text, parser.ParseComments)
			if perr != nil {
				fail("harness file does not parse: " + perr.Error())
			}
			tf := fset.File(af.Pos())
			found := false
			for _, d := range af.Decls {
				lo, hi := d.Pos(), d.End()
				name := ""
				switch d := d.(type) {
				case *ast.FuncDecl:
					if d.Doc != nil {
						lo = d.Doc.Pos()
					}
					name = d.Name.Name
				case *ast.GenDecl:
					if d.Doc != nil {
						lo = d.Doc.Pos()
					}
					if d.Tok == token.IMPORT {
						// an import that is no longer used: drop that spec only
						for _, s := range d.Specs {
							if tf.Line(s.Pos()) <= line && line <= tf.Line(s.End()) {
								if d.Lparen.IsValid() {
									lo, hi = s.Pos(), s.End()
								}
								name = "import " + s.(*ast.ImportSpec).Path.Value
							}
						}
						if name == "" {
							continue
						}
					} else if d.Lparen.IsValid() {
						for _, s := range d.Specs {
							if tf.Line(s.Pos()) <= line && line <= tf.Line(s.End()) {
								lo, hi = s.Pos(), s.End()
								switch s := s.(type) {
								case *ast.ValueSpec:
									name = s.Names[0].Name
								case *ast.TypeSpec:
									name = s.Name.Name
								}
							}
						}
						if name == "" {
							continue
						}
					} else {
						switch s := d.Specs[0].(type) {
						case *ast.ValueSpec:
							name = s.Names[0].Name
						case *ast.TypeSpec:
							name = s.Name.Name
						}
					}
				}
				if tf.Line(lo) <= line && line <= tf.Line(hi) {
					marks[hf] = append(marks[hf], mark{tf.Offset(lo), tf.Offset(hi), name, e.Msg})
					found = true
					break
				}
			}
			if found {
				progress = true
			}
		}
		if !progress {
			fail("type errors that cannot be attributed to a harness declaration: " + errs[0].Error())
		}
		for hf, ms := range marks {
			sort.Slice(ms, func(i, j int) bool { return ms[i].lo > ms[j].lo })
			last := -1
			for _, m := range ms {
				if m.lo == last {
					continue
				}
				last = m.lo
				removed = append(removed, prunedDecl{File: filepath.Base(hf.src), Name: m.name, Reason: m.reason, Text: hf.text[m.lo:m.hi], Round: round})
				hf.text = hf.text[:m.lo] + "/* pruned: " + m.name + " */" + hf.text[m.hi:]
			}
		}
	}
	if *outdir != "" {
		os.MkdirAll(*outdir, 0o755)
		for _, f := range files {
			os.WriteFile(filepath.Join(*outdir, filepath.Base(f.src)), []byte(f.text), 0o644)
		}
	}
	b, _ := json.MarshalIndent(map[string]any{"removed": removed}, "", " ")
	os.Stdout.Write(b)
}
