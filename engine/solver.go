package main

// A long-lived SMT solver process (z3 -in, or cvc5 --incremental) driven over
// a pipe with push/pop. Any "(error" line or "unknown" makes a query
// inconclusive; the caller decides what that means.

import (
	"bufio"
	"fmt"
	"io"
	"os/exec"
	"strconv"
	"strings"
	"time"
)

type SatResult int

const (
	Unsat SatResult = iota
	Sat
	Unknown
)

func (r SatResult) String() string { return [...]string{"unsat", "sat", "unknown"}[r] }

type Solver struct {
	name    string
	cmd     *exec.Cmd
	in      io.WriteCloser
	out     *bufio.Reader
	Queries int
	Time    time.Duration
	Errors  int
	LastErr string
	log     io.Writer
}

func solverArgs(kind string, timeoutMs int) (string, []string) {
	switch kind {
	case "z3":
		return "z3", []string{"-in", fmt.Sprintf("-t:%d", timeoutMs)}
	case "z3-new":
		return "z3-new", []string{"-in", fmt.Sprintf("-t:%d", timeoutMs)}
	case "cvc5":
		return "cvc5", []string{"--incremental", "--lang=smt2", "--produce-models", fmt.Sprintf("--tlimit-per=%d", timeoutMs)}
	}
	panic("unknown solver " + kind)
}

func NewSolver(kind string, timeoutMs int) (*Solver, error) {
	bin, args := solverArgs(kind, timeoutMs)
	cmd := exec.Command(bin, args...)
	in, err := cmd.StdinPipe()
	if err != nil {
		return nil, err
	}
	out, err := cmd.StdoutPipe()
	if err != nil {
		return nil, err
	}
	cmd.Stderr = cmd.Stdout
	if err := cmd.Start(); err != nil {
		return nil, err
	}
	s := &Solver{name: kind, cmd: cmd, in: in, out: bufio.NewReaderSize(out, 1<<16)}
	if kind == "cvc5" {
		s.Send("(set-logic ALL)")
	}
	s.Send("(set-option :produce-models true)")
	return s, nil
}

func (s *Solver) Close() {
	s.in.Close()
	s.cmd.Process.Kill()
	s.cmd.Wait()
}

func (s *Solver) Send(line string) {
	if s.log != nil {
		fmt.Fprintln(s.log, line)
	}
	io.WriteString(s.in, line)
	io.WriteString(s.in, "\n")
}

func (s *Solver) readLine() string {
	l, err := s.out.ReadString('\n')
	if err != nil {
		s.Errors++
		s.LastErr = "solver pipe: " + err.Error()
		return "(error \"pipe closed\")"
	}
	return strings.TrimSpace(l)
}

// Check runs (check-sat) in the current context.
func (s *Solver) Check() SatResult {
	t0 := time.Now()
	s.Send("(check-sat)")
	s.Queries++
	for {
		l := s.readLine()
		switch {
		case l == "sat":
			s.Time += time.Since(t0)
			return Sat
		case l == "unsat":
			s.Time += time.Since(t0)
			return Unsat
		case l == "unknown" || l == "timeout":
			s.Time += time.Since(t0)
			return Unknown
		case strings.HasPrefix(l, "(error"):
			s.Errors++
			s.LastErr = l
			if strings.Contains(l, "pipe closed") {
				s.Time += time.Since(t0)
				return Unknown
			}
			// keep reading: the verdict line still follows, but it is not trusted
			for {
				l2 := s.readLine()
				if l2 == "sat" || l2 == "unsat" || l2 == "unknown" || strings.Contains(l2, "pipe closed") {
					break
				}
			}
			s.Time += time.Since(t0)
			return Unknown
		case l == "":
			continue
		default:
			// unexpected chatter
			s.LastErr = l
		}
	}
}

// readSexp reads one balanced s-expression from the solver output.
func (s *Solver) readSexp() string {
	var sb strings.Builder
	depth := 0
	started := false
	inBar := false
	for {
		c, err := s.out.ReadByte()
		if err != nil {
			s.Errors++
			s.LastErr = "solver pipe: " + err.Error()
			return sb.String()
		}
		sb.WriteByte(c)
		if inBar {
			if c == '|' {
				inBar = false
			}
			continue
		}
		switch c {
		case '|':
			inBar = true
		case '(':
			depth++
			started = true
		case ')':
			depth--
			if started && depth == 0 {
				return sb.String()
			}
		}
	}
}

// GetValues returns the values of the named variables (name -> width) in the
// last sat context. Bool values are 0/1.
func (s *Solver) GetValues(vars map[string]int) (Model, bool) {
	m := Model{}
	if len(vars) == 0 {
		return m, true
	}
	names := make([]string, 0, len(vars))
	for n := range vars {
		names = append(names, n)
	}
	// chunk to keep lines reasonable
	for i := 0; i < len(names); i += 200 {
		j := i + 200
		if j > len(names) {
			j = len(names)
		}
		var sb strings.Builder
		sb.WriteString("(get-value (")
		for _, n := range names[i:j] {
			sb.WriteString(smtName(n))
			sb.WriteByte(' ')
		}
		sb.WriteString("))")
		s.Send(sb.String())
		resp := s.readSexp()
		if strings.Contains(resp, "(error") {
			s.Errors++
			s.LastErr = resp
			return m, false
		}
		if !parseValues(resp, m) {
			s.Errors++
			s.LastErr = "cannot parse get-value: " + resp
			return m, false
		}
	}
	return m, true
}

// parseValues parses ((|a| #x01) (|b| true) ...) into m.
func parseValues(resp string, m Model) bool {
	i := 0
	n := len(resp)
	skip := func() {
		for i < n && (resp[i] == ' ' || resp[i] == '\n' || resp[i] == '\t' || resp[i] == '\r') {
			i++
		}
	}
	skip()
	if i >= n || resp[i] != '(' {
		return false
	}
	i++
	for {
		skip()
		if i < n && resp[i] == ')' {
			return true
		}
		if i >= n || resp[i] != '(' {
			return false
		}
		i++
		skip()
		// name
		var name string
		if resp[i] == '|' {
			j := strings.IndexByte(resp[i+1:], '|')
			if j < 0 {
				return false
			}
			name = resp[i+1 : i+1+j]
			i = i + 1 + j + 1
		} else {
			j := i
			for j < n && resp[j] != ' ' && resp[j] != ')' {
				j++
			}
			name = resp[i:j]
			i = j
		}
		skip()
		// value
		j := i
		depth := 0
		for j < n {
			if resp[j] == '(' {
				depth++
			} else if resp[j] == ')' {
				if depth == 0 {
					break
				}
				depth--
			}
			j++
		}
		val := strings.TrimSpace(resp[i:j])
		i = j + 1
		v, ok := parseValue(val)
		if !ok {
			return false
		}
		m[name] = v
	}
}

func parseValue(v string) (uint64, bool) {
	switch {
	case v == "true":
		return 1, true
	case v == "false":
		return 0, true
	case strings.HasPrefix(v, "#x"):
		u, err := strconv.ParseUint(v[2:], 16, 64)
		return u, err == nil
	case strings.HasPrefix(v, "#b"):
		u, err := strconv.ParseUint(v[2:], 2, 64)
		return u, err == nil
	case strings.HasPrefix(v, "(_ bv"):
		f := strings.Fields(v[5:])
		u, err := strconv.ParseUint(f[0], 10, 64)
		return u, err == nil
	}
	return 0, false
}
