package main

// Intercepted calls: the harness runtime (vrt*), environment stubs and the
// models of sync / atomic / fmt / regexp / reflect / bytes.IndexByte.
// Everything listed here is part of the trusted base of every claim.

import (
	"fmt"
	"go/types"
	"regexp"
	"strings"

	"golang.org/x/tools/go/ssa"
)

type intrinsic func(fr *frame, args []Value) Value

var intrinsics map[string]intrinsic

func init() {
	intrinsics = map[string]intrinsic{
		"(*sync.Mutex).Lock":       func(fr *frame, a []Value) Value { fr.th.mutexLock(a[0].(*Value)); return nil },
		"(*sync.Mutex).Unlock":     func(fr *frame, a []Value) Value { fr.th.mutexUnlock(a[0].(*Value)); return nil },
		"(*sync.RWMutex).Lock":     func(fr *frame, a []Value) Value { fr.th.mutexLock(a[0].(*Value)); return nil },
		"(*sync.RWMutex).Unlock":   func(fr *frame, a []Value) Value { fr.th.mutexUnlock(a[0].(*Value)); return nil },
		"(*sync.RWMutex).RLock":    func(fr *frame, a []Value) Value { fr.th.mutexRLock(a[0].(*Value)); return nil },
		"(*sync.RWMutex).RUnlock":  func(fr *frame, a []Value) Value { fr.th.mutexRUnlock(a[0].(*Value)); return nil },
		"(*sync.Cond).Wait":        func(fr *frame, a []Value) Value { fr.th.condWait(a[0].(*Value)); return nil },
		"(*sync.Cond).Broadcast":   func(fr *frame, a []Value) Value { fr.th.condBroadcast(a[0].(*Value), true); return nil },
		"(*sync.Cond).Signal":      func(fr *frame, a []Value) Value { fr.th.condBroadcast(a[0].(*Value), false); return nil },
		"sync.NewCond":             newCond,
		"(*sync.WaitGroup).Add":    func(fr *frame, a []Value) Value { fr.th.wgAdd(a[0].(*Value), sext64(fr.th.conc(a[1], "WaitGroup delta"), 64)); return nil },
		"(*sync.WaitGroup).Done":   func(fr *frame, a []Value) Value { fr.th.wgAdd(a[0].(*Value), -1); return nil },
		"(*sync.WaitGroup).Wait":   func(fr *frame, a []Value) Value { fr.th.wgWait(a[0].(*Value)); return nil },
		"(*sync.Once).Do":          func(fr *frame, a []Value) Value { fr.th.onceDo(a[0].(*Value), a[1]); return nil },
		"(*sync.Pool).Get":         syncPoolGet,
		"(*sync.Pool).Put":         syncPoolPut,
		"sync/atomic.LoadInt64":    atomicLoad,
		"sync/atomic.LoadUint64":   atomicLoad,
		"sync/atomic.LoadInt32":    atomicLoad,
		"sync/atomic.LoadUint32":   atomicLoad,
		"sync/atomic.StoreInt64":   atomicStore,
		"sync/atomic.StoreUint64":  atomicStore,
		"sync/atomic.StoreInt32":   atomicStore,
		"sync/atomic.StoreUint32":  atomicStore,
		"sync/atomic.AddInt64":     atomicAdd,
		"sync/atomic.AddUint64":    atomicAdd,
		"sync/atomic.AddInt32":     atomicAdd,
		"sync/atomic.AddUint32":    atomicAdd,
		"sync/atomic.CompareAndSwapInt64":  atomicCAS,
		"sync/atomic.CompareAndSwapUint64": atomicCAS,
		"sync/atomic.CompareAndSwapInt32":  atomicCAS,
		"sync/atomic.CompareAndSwapUint32": atomicCAS,

		"bytes.IndexByte":           bytesIndexByte,
		"internal/bytealg.IndexByte": bytesIndexByte,
		"fmt.Errorf":                fmtErrorf,
		"errors.Is":                 errorsIs,
		"fmt.Sprintf":               fmtSprintf,
		"fmt.Sprint":                fmtSprint,
		"fmt.Println":               func(fr *frame, a []Value) Value { return Tuple{fr.th.eng.pool.BV(0, 64), Iface{}} },
		"fmt.Printf":                func(fr *frame, a []Value) Value { return Tuple{fr.th.eng.pool.BV(0, 64), Iface{}} },
		"regexp.MustCompile":        regexpMustCompile,
		"(*regexp.Regexp).Match":    regexpMatch,
		"reflect.TypeOf":            reflectTypeOf,
		"reflect.ValueOf":           reflectValueOf,
		"reflect.DeepEqual":         reflectDeepEqual,
		"unicode/utf8.Valid":        utf8Valid,
		"unicode/utf8.ValidString":  utf8Valid,
		"(*crypto/rand.reader).Read": cryptoRandRead,
		"(*encoding/base64.Encoding).EncodeToString": base64EncodeToString,
		"(reflect.Value).Kind":      reflectKind,
		"time.Now":                 timeNow,
		"(time.Time).Add":          timeAdd,
		"(time.Time).Sub":          timeSub,
		"(time.Time).After":        func(fr *frame, a []Value) Value { return fr.th.eng.pool.Cmp(OpSlt, timeNS(a[1]), timeNS(a[0])) },
		"(time.Time).Before":       func(fr *frame, a []Value) Value { return fr.th.eng.pool.Cmp(OpSlt, timeNS(a[0]), timeNS(a[1])) },
		"(time.Time).IsZero":       func(fr *frame, a []Value) Value { return fr.th.eng.pool.Cmp(OpEq, timeNS(a[0]), fr.th.eng.pool.BV(0, 64)) },
		"(time.Time).UnixNano":     func(fr *frame, a []Value) Value { return timeNS(a[0]) },
		"net.Dial":                 netDial,
		"net/url.Parse":            urlParse,
		"runtime.Gosched":           func(fr *frame, a []Value) Value { fr.th.yield("Gosched"); return nil },
		"time.Sleep":                func(fr *frame, a []Value) Value { fr.th.yield("Sleep"); return nil },
	}
}

func (th *Thread) conc(v Value, what string) uint64 {
	return th.eng.path.Concretize(v.(*Term), what)
}

// intrinsicByPkg: whole packages that are stubbed out.
func intrinsicByPkg(fn *ssa.Function) intrinsic {
	var path string
	if fn.Pkg != nil {
		path = fn.Pkg.Pkg.Path()
	} else if recv := fn.Signature.Recv(); recv != nil {
		if n := namedOf(recv.Type()); n != nil && n.Obj().Pkg() != nil {
			path = n.Obj().Pkg().Path()
		}
	}
	switch {
	case path == "github.com/mdzio/go-logging":
		return func(fr *frame, args []Value) Value {
			res := fn.Signature.Results()
			if res.Len() == 0 {
				return nil
			}
			return fr.th.eng.zero(res)
		}
	}
	if strings.HasPrefix(fn.Name(), "vrt") && fn.Pkg != nil {
		if f, ok := vrtIntrinsics[fn.Name()]; ok {
			return f
		}
	}
	return nil
}

func namedOf(t types.Type) *types.Named {
	if p, ok := t.(*types.Pointer); ok {
		t = p.Elem()
	}
	n, _ := t.(*types.Named)
	return n
}

// ---------------------------------------------------------------------------
// sync / atomic

func newCond(fr *frame, args []Value) Value {
	e := fr.th.eng
	ct := fr.fn.Signature.Results().At(0).Type().(*types.Pointer).Elem()
	v := e.zero(ct).(Struct)
	st := ct.Underlying().(*types.Struct)
	for i := 0; i < st.NumFields(); i++ {
		if st.Field(i).Name() == "L" {
			v[i] = args[0]
		}
	}
	cell := new(Value)
	*cell = v
	return cell
}

// atomicSync: atomics are synchronisation operations: a store/RMW releases the
// thread's clock into the cell, a load/RMW acquires it.
func atomicSync(th *Thread, addr Value, acquire, release bool) {
	r := th.eng.race
	if r == nil {
		return
	}
	p, ok := addr.(*Value)
	if !ok || p == nil {
		return
	}
	if r.atoms == nil {
		r.atoms = map[*Value]*[]int{}
	}
	vc := r.atoms[p]
	if vc == nil {
		vc = new([]int)
		r.atoms[p] = vc
	}
	if acquire {
		r.acquire(th, vc)
	}
	if release {
		r.releaseJoin(th, vc)
	}
}

func atomicLoad(fr *frame, a []Value) Value {
	th := fr.th
	th.yield("atomic.Load")
	e := th.eng
	if e.race != nil {
		e.race.atomic = true
		defer func() { e.race.atomic = false }()
	}
	v := th.load(nil, a[0])
	atomicSync(th, a[0], true, false)
	return v
}

func atomicStore(fr *frame, a []Value) Value {
	th := fr.th
	th.yield("atomic.Store")
	e := th.eng
	if e.race != nil {
		e.race.atomic = true
		defer func() { e.race.atomic = false }()
	}
	atomicSync(th, a[0], false, true)
	th.store(nil, a[0], a[1])
	return nil
}

func atomicAdd(fr *frame, a []Value) Value {
	th := fr.th
	th.yield("atomic.Add")
	e := th.eng
	if e.race != nil {
		e.race.atomic = true
		defer func() { e.race.atomic = false }()
	}
	atomicSync(th, a[0], true, true)
	v := e.pool.Bin(OpAdd, th.load(nil, a[0]).(*Term), a[1].(*Term))
	th.store(nil, a[0], v)
	return v
}

func atomicCAS(fr *frame, a []Value) Value {
	th := fr.th
	th.yield("atomic.CAS")
	e := th.eng
	if e.race != nil {
		e.race.atomic = true
		defer func() { e.race.atomic = false }()
	}
	atomicSync(th, a[0], true, true)
	cur := th.load(nil, a[0]).(*Term)
	if e.path.Branch(e.pool.Cmp(OpEq, cur, a[1].(*Term))) {
		th.store(nil, a[0], a[2])
		return e.pool.True
	}
	return e.pool.False
}

// ---------------------------------------------------------------------------
// bytes / fmt / regexp / reflect

func bytesIndexByte(fr *frame, a []Value) Value {
	th := fr.th
	p := th.eng.pool
	s := a[0].(Slice)
	c := a[1].(*Term)
	n := th.eng.path.Concretize(s.ln, "IndexByte len")
	r := p.BV(^uint64(0), 64)
	for i := int64(n) - 1; i >= 0; i-- {
		r = p.Ite(p.Cmp(OpEq, th.byteAt(s, uint64(i)), c), p.BV(uint64(i), 64), r)
	}
	return r
}

func (e *Engine) errorString(msg string) Value {
	// *errors.errorString{s}
	pkg := e.w.pr.pkgs["errors"]
	var t types.Type
	if pkg != nil {
		if m := pkg.Members["errorString"]; m != nil {
			t = types.NewPointer(m.Type())
		}
	}
	if t == nil {
		panic(inconclusive{"errors.errorString type not loaded"})
	}
	cell := new(Value)
	*cell = Struct{Str{s: msg}}
	return Iface{t: t, v: cell}
}

// errorsIs: errors.Is over the engine's error objects. Errors made by errors.New / fmt.Errorf are opaque
// (*errors.errorString): nothing is wrapped inside them in this model, so Is is identity (a "%w" chain
// that the native run follows would show up as an engine / native discrepancy, never as a verdict).
func errorsIs(fr *frame, a []Value) Value {
	e := fr.th.eng
	x, ok1 := a[0].(Iface)
	y, ok2 := a[1].(Iface)
	if !ok1 || !ok2 {
		panic(inconclusive{"errors.Is: unexpected operands"})
	}
	if x.t == nil || y.t == nil {
		return e.pool.Bool(x.t == nil && y.t == nil)
	}
	return e.equals(types.Universe.Lookup("error").Type(), x, y)
}

func fmtErrorf(fr *frame, a []Value) Value {
	s, _ := a[0].(Str).Concrete()
	return fr.th.eng.errorString(fr.th.format(s, a[1].(Slice)))
}

func fmtSprintf(fr *frame, a []Value) Value {
	s, _ := a[0].(Str).Concrete()
	return Str{s: fr.th.format(s, a[1].(Slice))}
}

// format renders with the real fmt when every argument is concrete and of a
// simple kind; otherwise an opaque (but deterministic) string.
func (th *Thread) format(f string, args Slice) string {
	gv, ok := th.goValues(args)
	if !ok {
		return f
	}
	return fmt.Sprintf(f, gv...)
}

// fmt.Sprint: computed with the real fmt when every operand is concrete, otherwise an opaque string
func fmtSprint(fr *frame, a []Value) Value {
	gv, ok := fr.th.goValues(a[0].(Slice))
	if !ok {
		return Str{s: "<fmt.Sprint>"}
	}
	return Str{s: fmt.Sprint(gv...)}
}

// goValues: the operands of a fmt call as Go values, if all of them are concrete and of a simple kind
func (th *Thread) goValues(args Slice) ([]interface{}, bool) {
	cells := th.sliceCells(args, "fmt args")
	var gv []interface{}
	for _, c := range cells {
		iv, ok := c.(Iface)
		if !ok {
			return nil, false
		}
		switch v := iv.v.(type) {
		case *Term:
			if !v.IsConst() {
				return nil, false
			}
			w, signed, _ := intInfo(iv.t)
			switch {
			case w == 0:
				gv = append(gv, v.Val == 1)
			case signed:
				gv = append(gv, sext64(v.Val, w))
			default:
				gv = append(gv, v.Val)
			}
		case Str:
			s, ok := v.Concrete()
			if !ok {
				return nil, false
			}
			gv = append(gv, s)
		default:
			return nil, false
		}
	}
	return gv, true
}

type regexObj struct {
	re  *regexp.Regexp
	src string
}

func regexpMustCompile(fr *frame, a []Value) Value {
	s, ok := a[0].(Str).Concrete()
	if !ok {
		panic(inconclusive{"regexp.MustCompile of symbolic pattern"})
	}
	re := regexp.MustCompile(s)
	cell := new(Value)
	*cell = &regexObj{re: re, src: s}
	return cell
}

// regexpMatch: the real regexp decides; symbolic subject bytes are handled by
// a per-byte class table when the pattern is a single anchored class with a
// length range (^[class]{m,n}$), which is what the code under test uses.
func regexpMatch(fr *frame, a []Value) Value {
	th := fr.th
	e := th.eng
	p := e.pool
	ro, ok := (*a[0].(*Value)).(*regexObj)
	if !ok {
		panic(inconclusive{"regexp object not created by the engine"})
	}
	s := a[1].(Slice)
	n := e.path.Concretize(s.ln, "regexp subject len")
	bs := make([]*Term, n)
	allc := true
	for i := range bs {
		bs[i] = th.byteAt(s, uint64(i))
		if !bs[i].IsConst() {
			allc = false
		}
	}
	if allc {
		b := make([]byte, n)
		for i := range b {
			b[i] = byte(bs[i].Val)
		}
		return p.Bool(ro.re.Match(b))
	}
	m := regexp.MustCompile(`^\^\[(.+)\]\{(\d+),(\d+)\}\$$`).FindStringSubmatch(ro.src)
	if m == nil {
		panic(inconclusive{"regexp pattern outside the modelled form: " + ro.src})
	}
	var lo, hi int
	fmt.Sscan(m[2], &lo)
	fmt.Sscan(m[3], &hi)
	if int(n) < lo || int(n) > hi {
		return p.False
	}
	one := regexp.MustCompile("^[" + m[1] + "]$")
	// per-byte membership as a disjunction of ranges computed with the real regexp
	var ranges [][2]int
	start := -1
	for c := 0; c <= 256; c++ {
		in := c < 256 && one.Match([]byte{byte(c)})
		if in && start < 0 {
			start = c
		}
		if !in && start >= 0 {
			ranges = append(ranges, [2]int{start, c - 1})
			start = -1
		}
	}
	r := p.True
	for _, b := range bs {
		mem := p.False
		for _, rg := range ranges {
			mem = p.BOr(mem, p.BAnd(p.Cmp(OpUle, p.BV(uint64(rg[0]), 8), b), p.Cmp(OpUle, b, p.BV(uint64(rg[1]), 8))))
		}
		r = p.BAnd(r, mem)
	}
	return r
}

type rtypeObj struct{ t types.Type }

func reflectTypeOf(fr *frame, a []Value) Value {
	iv := a[0].(Iface)
	// reflect.Type is an interface; represent by an Iface whose value carries the type
	if iv.t == nil {
		return Iface{}
	}
	return Iface{t: rtypeMarker, v: &rtypeObj{iv.t}}
}

var rtypeMarker = types.NewNamed(types.NewTypeName(0, nil, "rtype", nil), types.Typ[types.Int], nil)

func reflectValueOf(fr *frame, a []Value) Value {
	return Struct{a[0]} // opaque: only Kind() is supported
}

func reflectKind(fr *frame, a []Value) Value {
	iv := a[0].(Struct)[0].(Iface)
	return fr.th.eng.pool.BV(kindOfType(iv.t), 64)
}

// rtypeMethod: a method of reflect.Type invoked on the engine's type object
type rtypeMethod struct {
	name string
	t    types.Type
}

func (th *Thread) rtypeInvoke(m rtypeMethod) Value {
	p := th.eng.pool
	switch m.name {
	case "Kind":
		return p.BV(kindOfType(m.t), 64)
	case "String":
		return Str{s: types.TypeString(m.t, func(p *types.Package) string { return p.Name() })}
	case "Name":
		if n, ok := m.t.(*types.Named); ok {
			return Str{s: n.Obj().Name()}
		}
		if b, ok := m.t.(*types.Basic); ok {
			return Str{s: b.Name()}
		}
		return Str{s: ""}
	case "Comparable":
		return p.Bool(types.Comparable(m.t))
	}
	panic(inconclusive{"unsupported reflect.Type method " + m.name})
}

func kindOfType(t types.Type) uint64 {
	kind := uint64(0)
	if t != nil {
		switch u := t.Underlying().(type) {
		case *types.Signature:
			kind = 19 // reflect.Func
		case *types.Pointer:
			kind = 22
		case *types.Struct:
			kind = 25
		case *types.Slice:
			kind = 23
		case *types.Map:
			kind = 21
		case *types.Interface:
			kind = 20
		case *types.Chan:
			kind = 18
		case *types.Array:
			kind = 17
		case *types.Basic:
			switch u.Kind() {
			case types.Bool:
				kind = 1
			case types.Int:
				kind = 2
			case types.Int8:
				kind = 3
			case types.Int16:
				kind = 4
			case types.Int32:
				kind = 5
			case types.Int64:
				kind = 6
			case types.Uint:
				kind = 7
			case types.Uint8:
				kind = 8
			case types.Uint16:
				kind = 9
			case types.Uint32:
				kind = 10
			case types.Uint64:
				kind = 11
			case types.Uintptr:
				kind = 12
			case types.Float32:
				kind = 13
			case types.Float64:
				kind = 14
			case types.String:
				kind = 24
			case types.UnsafePointer:
				kind = 26
			}
		}
	}
	return kind
}

// time.Time is modelled as {wall: 0, ext: nanoseconds of the harness clock, loc: nil}.
func timeNS(v Value) *Term { return v.(Struct)[1].(*Term) }

func timeNow(fr *frame, a []Value) Value {
	e := fr.th.eng
	t := e.zero(fr.fn.Signature.Results().At(0).Type()).(Struct)
	t[1] = e.clock
	return t
}

func timeAdd(fr *frame, a []Value) Value {
	e := fr.th.eng
	t := copyVal(a[0]).(Struct)
	t[1] = e.pool.Bin(OpAdd, timeNS(a[0]), a[1].(*Term))
	return t
}

func timeSub(fr *frame, a []Value) Value {
	return fr.th.eng.pool.Bin(OpSub, timeNS(a[0]), timeNS(a[1]))
}

// net.Dial returns the pipe the harness registered with vrtSetDialConn.
func netDial(fr *frame, a []Value) Value {
	e := fr.th.eng
	if e.dialConn.t == nil {
		return Tuple{Iface{}, e.errorString("dial: no harness connection registered")}
	}
	c := e.dialConn
	e.dialConn = Iface{}
	return Tuple{c, Iface{}}
}

// url.Parse for the form scheme://host used by the harness.
func urlParse(fr *frame, a []Value) Value {
	e := fr.th.eng
	s, ok := a[0].(Str).Concrete()
	i := strings.Index(s, "://")
	if !ok || i < 0 {
		return Tuple{(*Value)(nil), e.errorString("parse: unsupported URI form")}
	}
	ut := fr.fn.Signature.Results().At(0).Type().(*types.Pointer).Elem()
	u := e.zero(ut).(Struct)
	st := ut.Underlying().(*types.Struct)
	for k := 0; k < st.NumFields(); k++ {
		switch st.Field(k).Name() {
		case "Scheme":
			u[k] = Str{s: s[:i]}
		case "Host":
			u[k] = Str{s: s[i+3:]}
		}
	}
	cell := new(Value)
	*cell = u
	return Tuple{cell, Iface{}}
}

// reflect.DeepEqual over interpreter values (the documented rules: pointers are
// equal if identical or if their pointees are deeply equal, structs field by
// field incl. unexported ones, slices both nil or both non-nil with equal length
// and elements, funcs only if both nil, interfaces by dynamic type and value).
func reflectDeepEqual(fr *frame, a []Value) Value {
	x, y := a[0].(Iface), a[1].(Iface)
	e := fr.th.eng
	if x.t == nil || y.t == nil {
		return e.pool.Bool(x.t == nil && y.t == nil)
	}
	if !types.Identical(x.t, y.t) {
		return e.pool.False
	}
	return e.deepEqual(fr.th, x.v, y.v, map[[2]*Value]bool{}, 0)
}

func (e *Engine) deepEqual(th *Thread, x, y Value, seen map[[2]*Value]bool, depth int) *Term {
	p := e.pool
	if depth > 64 {
		panic(inconclusive{"reflect.DeepEqual: nesting deeper than 64"})
	}
	switch x := x.(type) {
	case nil:
		return p.Bool(y == nil)
	case *Term:
		yt, ok := y.(*Term)
		if !ok || yt.W != x.W {
			return p.False
		}
		return p.Cmp(OpEq, x, yt)
	case Str:
		ys, ok := y.(Str)
		if !ok {
			return p.False
		}
		return e.strEq(x, ys)
	case Float:
		yf, ok := y.(Float)
		return p.Bool(ok && x.f == yf.f)
	case *Value:
		yp, ok := y.(*Value)
		if !ok {
			return p.False
		}
		if x == nil || yp == nil {
			return p.Bool(x == nil && yp == nil)
		}
		if x == yp || seen[[2]*Value{x, yp}] {
			return p.True
		}
		seen[[2]*Value{x, yp}] = true
		e.access(th, x, false)
		e.access(th, yp, false)
		return e.deepEqual(th, *x, *yp, seen, depth+1)
	case Struct:
		ys, ok := y.(Struct)
		if !ok || len(ys) != len(x) {
			return p.False
		}
		r := p.True
		for i := range x {
			r = p.BAnd(r, e.deepEqual(th, x[i], ys[i], seen, depth+1))
		}
		return r
	case Array:
		ya, ok := y.(Array)
		if !ok || len(ya) != len(x) {
			return p.False
		}
		r := p.True
		for i := range x {
			r = p.BAnd(r, e.deepEqual(th, x[i], ya[i], seen, depth+1))
		}
		return r
	case Iface:
		yi, ok := y.(Iface)
		if !ok {
			return p.False
		}
		if x.t == nil || yi.t == nil {
			return p.Bool(x.t == nil && yi.t == nil)
		}
		if !types.Identical(x.t, yi.t) {
			return p.False
		}
		return e.deepEqual(th, x.v, yi.v, seen, depth+1)
	case Slice:
		ys, ok := y.(Slice)
		if !ok {
			return p.False
		}
		if x.isNil() != ys.isNil() {
			return p.False
		}
		if x.arr != nil || ys.arr != nil || !x.ln.IsConst() || !ys.ln.IsConst() || !x.off.IsConst() || !ys.off.IsConst() {
			panic(inconclusive{"reflect.DeepEqual on a slice of symbolic extent"})
		}
		if x.ln.Val != ys.ln.Val {
			return p.False
		}
		r := p.True
		for i := uint64(0); i < x.ln.Val; i++ {
			r = p.BAnd(r, e.deepEqual(th, x.data[x.off.Val+i], ys.data[ys.off.Val+i], seen, depth+1))
		}
		return r
	case *Map:
		ym, ok := y.(*Map)
		if !ok {
			return p.False
		}
		if x == nil || ym == nil {
			return p.Bool(x == nil && ym == nil)
		}
		if x == ym {
			return p.True
		}
		panic(inconclusive{"reflect.DeepEqual on two distinct maps"})
	case *Chan:
		yc, ok := y.(*Chan)
		return p.Bool(ok && x == yc)
	case *ssa.Function:
		yf, ok := y.(*ssa.Function)
		return p.Bool(ok && x == nil && yf == nil)
	case *Closure:
		yc, ok := y.(*Closure)
		return p.Bool(ok && x == nil && yc == nil)
	}
	panic(inconclusive{fmt.Sprintf("reflect.DeepEqual on %T", x)})
}

// crypto/rand: every byte delivered is a fresh solver variable (the environment may return anything).
func cryptoRandRead(fr *frame, a []Value) Value {
	th := fr.th
	e := th.eng
	b := a[1].(Slice)
	if b.arr != nil || !b.ln.IsConst() || !b.off.IsConst() {
		panic(inconclusive{"crypto/rand.Read into a buffer of symbolic extent"})
	}
	for i := uint64(0); i < b.ln.Val; i++ {
		e.nrand++
		th.storeInto(&b.data[b.off.Val+i], e.path.NewVar(fmt.Sprintf("rand%d", e.nrand), 8))
	}
	return Tuple{e.pool.BV(b.ln.Val, 64), Iface{}}
}

// encoding/base64 (its tables are built by the package's init, which is not run): the result has the
// right length; its characters are fresh solver variables from the URL-safe alphabet's byte range.
func base64EncodeToString(fr *frame, a []Value) Value {
	th := fr.th
	e := th.eng
	b := a[1].(Slice)
	if !b.ln.IsConst() {
		panic(inconclusive{"base64 of a buffer of symbolic length"})
	}
	n := int((b.ln.Val + 2) / 3 * 4)
	out := Str{sym: make([]*Term, n)}
	for i := range out.sym {
		e.nrand++
		c := e.path.NewVar(fmt.Sprintf("b64_%d", e.nrand), 8)
		e.path.Assume(e.pool.BAnd(e.pool.Cmp(OpUle, e.pool.BV('-', 8), c), e.pool.Cmp(OpUle, c, e.pool.BV('z', 8))))
		out.sym[i] = c
	}
	if n == 0 {
		return Str{}
	}
	return out
}

// sync.Pool: a per-pool stack. Get returns what was Put last (that is what a single P does and the case in
// which recycled state is visible); an empty pool calls New.
func syncPoolGet(fr *frame, a []Value) Value {
	th := fr.th
	e := th.eng
	p := a[0].(*Value)
	th.yield("Pool.Get")
	if e.pools == nil {
		e.pools = map[*Value][]Value{}
	}
	if st := e.pools[p]; len(st) > 0 {
		v := st[len(st)-1]
		e.pools[p] = st[:len(st)-1]
		if e.race != nil {
			atomicSync(th, p, true, false)
		}
		return v
	}
	// the New field: the last field of sync.Pool that holds a func value
	st := (*p).(Struct)
	for i := len(st) - 1; i >= 0; i-- {
		switch f := st[i].(type) {
		case *ssa.Function:
			if f != nil {
				return th.call(nil, 0, f, nil)
			}
		case *Closure:
			if f != nil {
				return th.call(nil, 0, f, nil)
			}
		}
	}
	return Iface{}
}

func syncPoolPut(fr *frame, a []Value) Value {
	th := fr.th
	e := th.eng
	p := a[0].(*Value)
	th.yield("Pool.Put")
	if e.pools == nil {
		e.pools = map[*Value][]Value{}
	}
	if iv, ok := a[1].(Iface); ok && iv.t == nil {
		return nil // Put(nil) is a no-op
	}
	if e.race != nil {
		atomicSync(th, p, false, true)
	}
	e.pools[p] = append(e.pools[p], a[1])
	return nil
}

// unicode/utf8.Valid / ValidString as one term over the (symbolic) bytes: the well-formedness automaton of
// the Unicode standard (table 3-7), its state a 4-bit vector, one if-then-else cascade per byte.
// States: 0 start/accept, 1..3 that many continuation bytes 80..BF to go, 4 after E0 (A0..BF, then 1),
// 5 after ED (80..9F, then 1), 6 after F0 (90..BF, then 2), 7 after F4 (80..8F, then 2), 8 reject.
func utf8Valid(fr *frame, a []Value) Value {
	th := fr.th
	p := th.eng.pool
	var bs []*Term
	switch x := a[0].(type) {
	case Str:
		for i := 0; i < x.Len(); i++ {
			bs = append(bs, x.At(p, i))
		}
	case Slice:
		if x.arr != nil {
			panic(inconclusive{"utf8.Valid on a solver-array backed slice"})
		}
		off := th.eng.path.Concretize(x.off, "utf8.Valid offset")
		ln := th.eng.path.Concretize(x.ln, "utf8.Valid length")
		for i := uint64(0); i < ln; i++ {
			th.eng.access(th, &x.data[off+i], false)
			bs = append(bs, x.data[off+i].(*Term))
		}
	default:
		panic(inconclusive{fmt.Sprintf("utf8.Valid on %T", a[0])})
	}
	st := func(n uint64) *Term { return p.BV(n, 4) }
	in := func(b *Term, lo, hi uint64) *Term {
		return p.BAnd(p.Cmp(OpUle, p.BV(lo, 8), b), p.Cmp(OpUle, b, p.BV(hi, 8)))
	}
	state := st(0)
	for _, b := range bs {
		fromStart := p.Ite(in(b, 0x00, 0x7f), st(0),
			p.Ite(in(b, 0xc2, 0xdf), st(1),
				p.Ite(p.Cmp(OpEq, b, p.BV(0xe0, 8)), st(4),
					p.Ite(p.Cmp(OpEq, b, p.BV(0xed, 8)), st(5),
						p.Ite(in(b, 0xe1, 0xef), st(2),
							p.Ite(p.Cmp(OpEq, b, p.BV(0xf0, 8)), st(6),
								p.Ite(in(b, 0xf1, 0xf3), st(3),
									p.Ite(p.Cmp(OpEq, b, p.BV(0xf4, 8)), st(7), st(8)))))))))
		cont := in(b, 0x80, 0xbf)
		next := st(8)
		next = p.Ite(p.Cmp(OpEq, state, st(7)), p.Ite(in(b, 0x80, 0x8f), st(2), st(8)), next)
		next = p.Ite(p.Cmp(OpEq, state, st(6)), p.Ite(in(b, 0x90, 0xbf), st(2), st(8)), next)
		next = p.Ite(p.Cmp(OpEq, state, st(5)), p.Ite(in(b, 0x80, 0x9f), st(1), st(8)), next)
		next = p.Ite(p.Cmp(OpEq, state, st(4)), p.Ite(in(b, 0xa0, 0xbf), st(1), st(8)), next)
		next = p.Ite(p.Cmp(OpEq, state, st(3)), p.Ite(cont, st(2), st(8)), next)
		next = p.Ite(p.Cmp(OpEq, state, st(2)), p.Ite(cont, st(1), st(8)), next)
		next = p.Ite(p.Cmp(OpEq, state, st(1)), p.Ite(cont, st(0), st(8)), next)
		next = p.Ite(p.Cmp(OpEq, state, st(0)), fromStart, next)
		state = next
	}
	return p.Cmp(OpEq, state, st(0))
}
