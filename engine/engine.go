package main

// Engine = state of one path execution (heap roots, globals, threads);
// Worker = one solver process + a loop taking decision prefixes from the
// shared worklist.

import (
	"fmt"
	"go/types"
	"os"
	"runtime/debug"
	"sort"
	"strings"
	"sync"
	"time"

	"golang.org/x/tools/go/ssa"
)

type Config struct {
	Unwind       int
	MaxSteps     int64
	AllocCeiling int64
	Workers      int
	QueryTimeout int // ms
	ReverseMaps  bool
	Sched        string // "canonical" | "explore"
	SchedRev     bool   // round robin in descending thread order (a second canonical schedule)
	Preempt      int
	MaxPaths     int
	MaxConcr     int
	Verbose      bool
	Race         bool
	Deadline     time.Time
	Bounds       map[string]int64
	FallbackSec  int
	DumpDir      string
	DumpEvery    int
	DumpMax      int
}

type Program struct {
	prog     *ssa.Program
	pkgs     map[string]*ssa.Package // by import path
	buildMu  sync.Mutex
	built    map[*ssa.Package]bool
	repoPkgs []string
	initPkgs []*ssa.Package // packages whose init runs (non-recursively) per path
	harnessPkg *ssa.Package
}

type Worker struct {
	id     int
	prog   *ssa.Program
	pr     *Program
	cfg    *Config
	solver *Solver
	fallbacks int
	oblCount  int
	dumped    int
}

func (w *Worker) buildPkg(p *ssa.Package) {
	w.pr.buildMu.Lock()
	defer w.pr.buildMu.Unlock()
	if !w.pr.built[p] {
		p.Build()
		w.pr.built[p] = true
	}
}

type Event struct {
	Kind   string
	Detail string
}

type Engine struct {
	w           *Worker
	pool        *Pool
	path        *Path
	spinSuspect string // a loop of the code under test that kept turning while nothing else could run (see loopCheck)
	globals     map[*ssa.Global]*Value
	initRunning map[*ssa.Function]bool
	funcs       map[string]bool
	events      []Event
	notes       map[string]bool
	nchan       int
	dialConn    Iface
	lastPanicPos string
	narr        int
	nrand       int
	pools       map[*Value][]Value // sync.Pool contents

	// threads
	threads []*Thread
	cur     *Thread
	abort   interface{}
	sched   *schedState

	// sync side tables
	mutexes map[*Value]*mutexState
	conds   map[*Value]*condState
	wgs     map[*Value]*wgState
	onces   map[*Value]*onceState

	// harness clock (ns)
	clock *Term

	race *raceState
}

func (e *Engine) global(g *ssa.Global) *Value {
	if v, ok := e.globals[g]; ok {
		return v
	}
	v := new(Value)
	*v = e.zero(g.Type().Underlying().(*types.Pointer).Elem())
	if g.Pkg != nil && g.Pkg.Pkg.Path() == "crypto/rand" && g.Name() == "Reader" {
		// crypto/rand.Reader (its package's init is not run): an object of the package's own reader type;
		// its Read is an environment stub that returns arbitrary bytes (see intrinsics)
		if tn := g.Pkg.Type("reader"); tn != nil {
			cell := new(Value)
			*cell = e.zero(tn.Type())
			*v = Iface{t: types.NewPointer(tn.Type()), v: cell}
		}
	}
	e.globals[g] = v
	return v
}

func (e *Engine) noteFunc(fn *ssa.Function) {
	if fn.Pkg != nil && e.w.pr.isRepo(fn.Pkg.Pkg.Path()) {
		e.funcs[fn.String()] = true
	} else if fn.Pkg == nil && fn.Synthetic != "" {
		// wrappers / bound methods
	}
}

func (pr *Program) isRepo(path string) bool {
	return strings.HasPrefix(path, "github.com/mdzio/go-mqtt")
}

func (e *Engine) event(kind, detail string) {
	e.events = append(e.events, Event{kind, detail})
}

func (e *Engine) note(s string) { e.notes[s] = true }

// PathResult is what one path execution reports back.
type PathResult struct {
	Prefix      []Decision
	Alts        [][]Decision
	Outcome     string // ok | aborted | inconclusive | panic | deadlock
	Detail      string
	Violations  []Violation
	Inconcl     []string
	Obligations int
	Discharged  int
	Steps       int64
	Reached     []string
	Funcs       []string
	Events      []Event
	Notes       []string
	Model       map[string]uint64
	Observes    []string // evaluated under Model
	Trace       string
	LoopHits    map[string]int
	VarOrder    []string
	Bounds      map[string]int64
	Sched       []int
	PanicPos    string
}

// runPath executes harness fn once, following prefix.
func (w *Worker) runPath(harness *ssa.Function, prefix []Decision) (res PathResult) {
	pool := NewPool()
	path := &Path{w: w, pool: pool, solver: w.solver, prefix: prefix, known: map[*Term]bool{}, vars: map[string]int{},
		reached: map[string]bool{}, maxConcr: w.cfg.MaxConcr, curHarness: harness.Name(), loopHits: map[string]int{}, bounds: map[string]int64{}}
	path.pr.vars = nil
	e := &Engine{w: w, pool: pool, path: path, globals: map[*ssa.Global]*Value{}, initRunning: map[*ssa.Function]bool{},
		funcs: map[string]bool{}, notes: map[string]bool{},
		mutexes: map[*Value]*mutexState{}, conds: map[*Value]*condState{}, wgs: map[*Value]*wgState{}, onces: map[*Value]*onceState{}}
	e.clock = pool.BV(0, 64)
	if w.cfg.Race {
		e.race = newRaceState()
	}
	e.sched = newSchedState(e)
	main := e.newThread(nil)
	e.cur = main
	res.Prefix = prefix
	path.begin()
	defer path.end()
	defer e.killAll()

	finish := func() {
		res.Alts = path.alts
		for i := range path.violations {
			for k, v := range path.bounds {
				if path.violations[i].Model != nil {
					path.violations[i].Model["$bound."+k] = uint64(v)
				}
			}
		}
		res.Bounds = path.bounds
		res.Sched = e.sched.points
		for i := range path.violations {
			if path.violations[i].Sched == nil {
				path.violations[i].Sched = e.sched.points
			}
		}
		res.Violations = path.violations
		res.Inconcl = path.inconcl
		res.Obligations = path.obligations
		res.Discharged = path.discharged
		res.Steps = path.steps
		res.Events = e.events
		res.Trace = path.traceString()
		res.LoopHits = path.loopHits
		res.VarOrder = path.order
		for k := range path.reached {
			res.Reached = append(res.Reached, k)
		}
		for k := range e.funcs {
			res.Funcs = append(res.Funcs, k)
		}
		for k := range e.notes {
			res.Notes = append(res.Notes, k)
		}
		sort.Strings(res.Reached)
		sort.Strings(res.Funcs)
	}

	func() {
		defer func() {
			r := recover()
			if r == nil && e.abort != nil {
				r = e.abort
			}
			switch r := r.(type) {
			case nil:
				res.Outcome = "ok"
			case abortPath:
				res.Outcome = "aborted"
				res.Detail = r.reason
			case inconclusive:
				res.Outcome = "inconclusive"
				res.Detail = r.reason
			case deadlockEvent:
				res.Outcome = "deadlock"
				res.Detail = r.detail
			case livelockEvent:
				res.Outcome = "livelock"
				res.Detail = r.detail
			case targetPanic:
				res.Outcome = "panic"
				res.Detail = describePanic(r.v)
				res.PanicPos = e.lastPanicPos
			default:
				res.Outcome = "inconclusive"
				res.Detail = fmt.Sprintf("engine failure: %v\n%s", r, debug.Stack())
			}
		}()
		// package initialisers (non-recursive), then the harness
		for _, ip := range w.pr.initPkgs {
			initf := ip.Func("init")
			if initf == nil {
				continue
			}
			e.initRunning[initf] = true
			main.callSSA(nil, 0, initf, nil, nil)
			delete(e.initRunning, initf)
		}
		main.callSSA(nil, 0, harness, nil, nil)
		// harness returned: let remaining threads run to quiescence? no: the
		// harness is responsible for joining what it started.
		if err := e.sched.finalCheck(); err != "" {
			panic(deadlockEvent{err})
		}
	}()

	// model of the path (for crash reports, observes, translator validation)
	needModel := res.Outcome == "panic" || res.Outcome == "deadlock" || res.Outcome == "livelock" || res.Outcome == "ok" || (res.Outcome == "aborted" && e.race != nil && len(e.race.races) > 0)
	if needModel {
		if m, ok := path.CurrentModel(); ok {
			for k, v := range path.bounds {
				m["$bound."+k] = uint64(v)
			}
			res.Model = m
			memo := map[*Term]uint64{}
			for _, o := range path.observes {
				res.Observes = append(res.Observes, renderObserve(o, m, memo))
			}
		} else if res.Outcome != "ok" {
			path.inconcl = append(path.inconcl, "no model for crash path")
		}
	}
	if e.race != nil && len(e.race.races) > 0 && (res.Outcome == "ok" || res.Outcome == "panic" || res.Outcome == "aborted") {
		var keys []string
		for k := range e.race.races {
			keys = append(keys, k)
		}
		sort.Strings(keys)
		for _, k := range keys {
			path.addViolation("race", k, "", res.Model)
			path.violations[len(path.violations)-1].Sched = e.sched.points
		}
	}
	if res.Outcome == "panic" || res.Outcome == "deadlock" || res.Outcome == "livelock" {
		path.addViolation(res.Outcome, res.Detail, res.PanicPos, res.Model)
		path.violations[len(path.violations)-1].Sched = e.sched.points
	}
	finish()
	return
}

// ---------------------------------------------------------------------------
// exploration of one harness

type HarnessResult struct {
	Harness      string            `json:"harness"`
	Paths        int               `json:"paths"`
	PathsOK      int               `json:"paths_ok"`
	Aborted      int               `json:"paths_aborted"`
	Steps        int64             `json:"ssa_instructions"`
	Obligations  int               `json:"obligations"`
	Discharged   int               `json:"discharged"`
	Violations   []Violation       `json:"violations"`
	Inconclusive []string          `json:"inconclusive"`
	Reached      map[string]int    `json:"reached"`
	Funcs        []string          `json:"functions"`
	Events       map[string]int    `json:"events"`
	Notes        []string          `json:"notes"`
	Queries      int               `json:"solver_queries"`
	SolverSec    float64           `json:"solver_seconds"`
	WallSec      float64           `json:"wall_seconds"`
	LoopMax      map[string]int    `json:"loop_max_iterations"`
	Samples      []PathSample      `json:"samples"`
	Vectors      []Vector          `json:"-"`
	Truncated    bool              `json:"truncated"`
	Fallbacks    int               `json:"queries_decided_by_fallback_solvers"`
	Bounds       map[string]int64  `json:"bounds"`
}

type PathSample struct {
	Trace   string            `json:"decisions"`
	Outcome string            `json:"outcome"`
	Model   map[string]uint64 `json:"model,omitempty"`
}

// Vector = a concrete input with the engine's predicted observation trace,
// for translator validation against the native build.
type Vector struct {
	Harness  string            `json:"harness"`
	Model    map[string]uint64 `json:"model"`
	Observes []string          `json:"observes"`
	Outcome  string            `json:"outcome"`
	Detail   string            `json:"detail,omitempty"`
	Sched    []int             `json:"sched,omitempty"`
}

func explore(pr *Program, cfg *Config, harness *ssa.Function) *HarnessResult {
	t0 := time.Now()
	hr := &HarnessResult{Harness: harness.Name(), Reached: map[string]int{}, Events: map[string]int{}, LoopMax: map[string]int{}, Bounds: map[string]int64{}}
	var mu sync.Mutex
	cond := sync.NewCond(&mu)
	work := [][]Decision{nil}
	active := 0
	funcs := map[string]bool{}
	notes := map[string]bool{}
	inconcl := map[string]int{}
	vioSeen := map[string]bool{}
	stop := false

	var wg sync.WaitGroup
	for i := 0; i < cfg.Workers; i++ {
		wg.Add(1)
		go func(id int) {
			defer wg.Done()
			s, err := NewSolver("z3", cfg.QueryTimeout)
			if err != nil {
				mu.Lock()
				inconcl["cannot start solver: "+err.Error()]++
				mu.Unlock()
				return
			}
			defer s.Close()
			w := &Worker{id: id, prog: pr.prog, pr: pr, cfg: cfg, solver: s}
			for {
				mu.Lock()
				for len(work) == 0 && active > 0 && !stop {
					cond.Wait()
				}
				if stop || (len(work) == 0 && active == 0) {
					mu.Unlock()
					cond.Broadcast()
					break
				}
				prefix := work[len(work)-1]
				work = work[:len(work)-1]
				active++
				mu.Unlock()

				res := w.runPath(harness, prefix)

				mu.Lock()
				active--
				hr.Paths++
				hr.Steps += res.Steps
				hr.Obligations += res.Obligations
				hr.Discharged += res.Discharged
				switch res.Outcome {
				case "ok":
					hr.PathsOK++
				case "aborted":
					hr.Aborted++
				case "inconclusive":
					inconcl[firstLine(res.Detail)]++
					if cfg.Verbose {
						fmt.Fprintf(os.Stderr, "INCONCLUSIVE %s: %s\n", harness.Name(), res.Detail)
					}
				}
				for _, s := range res.Inconcl {
					inconcl[s]++
				}
				for _, v := range res.Violations {
					key := v.Kind + "/" + v.Name
					if !vioSeen[key] || len(hr.Violations) < 6000 {
						if !vioSeen[key] {
							vioSeen[key] = true
						}
						hr.Violations = append(hr.Violations, v)
					}
				}
				for _, r := range res.Reached {
					hr.Reached[r]++
				}
				for _, f := range res.Funcs {
					funcs[f] = true
				}
				for _, n := range res.Notes {
					notes[n] = true
				}
				for _, ev := range res.Events {
					hr.Events[ev.Kind]++
				}
				for k, v := range res.Bounds {
					hr.Bounds[k] = v
				}
				for k, n := range res.LoopHits {
					if n > hr.LoopMax[k] {
						hr.LoopMax[k] = n
					}
				}
				if len(hr.Samples) < 5 && (res.Outcome == "ok" || res.Outcome == "panic") {
					hr.Samples = append(hr.Samples, PathSample{Trace: res.Trace, Outcome: res.Outcome, Model: res.Model})
				}
				if res.Model != nil && (res.Outcome == "ok" || res.Outcome == "panic") && len(hr.Vectors) < 4000 {
					hr.Vectors = append(hr.Vectors, Vector{Harness: harness.Name(), Model: res.Model, Observes: res.Observes, Outcome: res.Outcome, Detail: res.Detail, Sched: res.Sched})
				}
				work = append(work, res.Alts...)
				if cfg.MaxPaths > 0 && hr.Paths >= cfg.MaxPaths && (len(work) > 0 || active > 0) {
					stop = true
					hr.Truncated = true
					inconcl[fmt.Sprintf("path limit %d reached", cfg.MaxPaths)]++
				}
				if !cfg.Deadline.IsZero() && time.Now().After(cfg.Deadline) && (len(work) > 0 || active > 0) {
					stop = true
					hr.Truncated = true
					inconcl["time limit reached"]++
				}
				hr.Queries += 0
				mu.Unlock()
				cond.Broadcast()
			}
			mu.Lock()
			hr.Queries += s.Queries
			hr.SolverSec += s.Time.Seconds()
			hr.Fallbacks += w.fallbacks
			if s.Errors > 0 {
				inconcl[fmt.Sprintf("solver errors: %s", s.LastErr)] += s.Errors
			}
			mu.Unlock()
		}(i)
	}
	wg.Wait()
	for f := range funcs {
		hr.Funcs = append(hr.Funcs, f)
	}
	sort.Strings(hr.Funcs)
	for n := range notes {
		hr.Notes = append(hr.Notes, n)
	}
	sort.Strings(hr.Notes)
	for s, n := range inconcl {
		hr.Inconclusive = append(hr.Inconclusive, fmt.Sprintf("%s (x%d)", s, n))
	}
	sort.Strings(hr.Inconclusive)
	hr.WallSec = time.Since(t0).Seconds()
	return hr
}

func firstLine(s string) string {
	if i := strings.IndexByte(s, '\n'); i >= 0 {
		return s[:i]
	}
	return s
}
