package main

// Interpreter threads (one OS goroutine each, only one runs at a time:
// baton passing), scheduling regimes, and the sync primitives' models.

import (
	"fmt"
	"go/token"
	"go/types"

	"golang.org/x/tools/go/ssa"
)

type Thread struct {
	id        int
	eng       *Engine
	wake      chan struct{}
	done      chan struct{}
	finished  bool
	started   bool
	killed    bool
	blocked   func() bool // non-nil: cannot run until it returns true
	blockWhat string
	depth     int
	loopCount map[loopKey]int
	crashed   bool
	name      string
	vc        []int // vector clock (race detection)
	signaled  bool
	pos       token.Pos
	curFn     *ssa.Function
	visible   bool // the sync operation being executed was called from instrumentable repo code
	joinable  bool // started by the harness through vrtGo (vrtJoin waits for these)
	paused    bool // preempted in "preempt" mode: runs again only when nothing else can
	quiescing bool // blocked in vrtQuiesce (waiting for everybody else to block)
	noPoints  int  // >0: inside a composite primitive (Cond.Wait): no scheduling points
}

type deadlockEvent struct{ detail string }

type schedState struct {
	e       *Engine
	trace   []int // thread ids in scheduling order (switch points only)
	points  []int // thread id at every visible scheduling point, in execution order (native replay script)
	preempt int
}

func newSchedState(e *Engine) *schedState { return &schedState{e: e} }

func (e *Engine) newThread(parent *Thread) *Thread {
	th := &Thread{id: len(e.threads), eng: e, wake: make(chan struct{}, 1), done: make(chan struct{}), loopCount: map[loopKey]int{}}
	e.threads = append(e.threads, th)
	if e.race != nil {
		e.race.fork(parent, th)
	}
	return th
}

// couldRun: enabled, or suspended by a preemption but otherwise able to run.
func (th *Thread) couldRun() bool {
	if th.finished || th.killed {
		return false
	}
	return th.blocked == nil || th.blocked()
}

func (th *Thread) enabled() bool {
	if th.finished || th.killed || th.paused {
		return false
	}
	return th.blocked == nil || th.blocked()
}

// spawn implements the go statement.
func (th *Thread) spawn(fr *frame, pos token.Pos, fn Value, args []Value) {
	e := th.eng
	nt := e.newThread(th)
	nt.name = fmt.Sprintf("go@%s", e.pos(pos))
	go func() {
		<-nt.wake
		defer close(nt.done)
		defer func() {
			r := recover()
			nt.finished = true
			switch r := r.(type) {
			case nil:
			case killThread:
				return
			case targetPanic:
				// uncaught panic in a goroutine kills the process
				nt.crashed = true
				e.abort = r
			default:
				if e.abort == nil {
					e.abort = r
				}
			}
			if nt.killed {
				return
			}
			// hand the baton on
			e.sched.threadExit(nt)
		}()
		if nt.killed {
			panic(killThread{})
		}
		nt.started = true
		nt.call(nil, pos, fn, args)
		if e.race != nil {
			e.race.exit(nt)
		}
	}()
	// the new thread becomes runnable (the spawning thread keeps running)
}

// killAll terminates every thread goroutine other than the main one.
func (e *Engine) killAll() {
	for _, t := range e.threads[1:] {
		if t.finished {
			continue
		}
		t.killed = true
		select {
		case t.wake <- struct{}{}:
		default:
		}
	}
	for _, t := range e.threads[1:] {
		<-t.done
	}
}

// resume blocks the calling thread until it is given the baton.
func (th *Thread) park() {
	<-th.wake
	if th.killed {
		panic(killThread{})
	}
	if th.id == 0 && th.eng.abort != nil {
		r := th.eng.abort
		panic(r)
	}
}

func (s *schedState) runnable() []*Thread {
	var r []*Thread
	for _, t := range s.e.threads {
		if t.enabled() {
			r = append(r, t)
		}
	}
	return r
}

// pick chooses the next thread to run when cur cannot or should not continue.
func (s *schedState) pickAfterBlock(cur *Thread) *Thread {
	e := s.e
	n := len(e.threads)
	// round robin among library threads (id>0), harness thread last
	start := cur.id
	for k := 1; k <= n; k++ {
		idx := (start + k) % n
		if e.w.cfg.SchedRev {
			idx = ((start-k)%n + n) % n // the other rotation: later-created threads first
		}
		t := e.threads[idx]
		if t.id != 0 && t.enabled() {
			return t
		}
	}
	if e.threads[0].enabled() {
		return e.threads[0]
	}
	// nothing else can run: a preempted (paused) thread continues
	for _, t := range e.threads {
		if t.paused && !t.finished && !t.killed {
			t.paused = false
			if t.enabled() {
				return t
			}
		}
	}
	return nil
}

func (s *schedState) describeBlocked() string {
	d := ""
	for _, t := range s.e.threads {
		if !t.finished {
			d += fmt.Sprintf("[thread %d %s blocked on %s] ", t.id, t.name, t.blockWhat)
		}
	}
	return d
}

// switchTo hands the baton from cur to next and parks cur (unless cur is done).
func (s *schedState) switchTo(cur, next *Thread) {
	if next == cur {
		return
	}
	s.trace = append(s.trace, next.id)
	s.e.cur = next
	next.wake <- struct{}{}
	cur.park()
}

func (s *schedState) threadExit(t *Thread) {
	e := s.e
	if e.abort != nil {
		// wake main to propagate
		e.cur = e.threads[0]
		e.threads[0].wake <- struct{}{}
		return
	}
	next := s.pickAfterBlock(t)
	if next == nil {
		e.abort = deadlockEvent{"all threads blocked: " + s.describeBlocked()}
		e.cur = e.threads[0]
		e.threads[0].wake <- struct{}{}
		return
	}
	s.trace = append(s.trace, next.id)
	e.cur = next
	next.wake <- struct{}{}
}

// yield is a scheduling point at which the current thread could continue.
// Only points in instrumentable repo code ("visible") are preemption
// candidates and are recorded for the native replay.
func (th *Thread) yield(what string) {
	e := th.eng
	s := e.sched
	if !th.visible || th.noPoints > 0 {
		return
	}
	if (e.w.cfg.Sched == "explore" || e.w.cfg.Sched == "preempt") && len(e.threads) > 1 && s.preempt < e.w.cfg.Preempt {
		var others []*Thread
		for _, t := range s.runnable() {
			if t != th {
				others = append(others, t)
			}
		}
		if len(others) > 0 {
			// decision: 0 = continue, k = preempt in favour of k-th other runnable thread
			c := e.path.Choose(len(others) + 1)
			if c != 0 {
				s.preempt++
				if e.w.cfg.Sched == "preempt" {
					th.paused = true // stays suspended until nothing else can run
				}
				s.switchTo(th, others[c-1])
			}
		}
	}
	s.points = append(s.points, th.id)
}

// block parks the current thread until cond() holds.
func (th *Thread) block(what string, cond func() bool) {
	e := th.eng
	s := e.sched
	if cond() {
		return
	}
	th.blocked = cond
	th.blockWhat = what
	for {
		var next *Thread
		if e.w.cfg.Sched == "explore" {
			rs := s.runnable()
			if len(rs) > 0 {
				next = rs[e.path.Choose(len(rs))]
			}
		} else {
			next = s.pickAfterBlock(th)
		}
		if next == nil {
			panic(deadlockEvent{"all threads blocked: " + s.describeBlocked()})
		}
		if next != th {
			s.switchTo(th, next)
		}
		if cond() {
			break
		}
	}
	th.blocked = nil
	th.blockWhat = ""
}

// finalCheck runs when the harness function returns.
func (s *schedState) finalCheck() string {
	return ""
}

// ---------------------------------------------------------------------------
// sync primitives

type mutexState struct {
	locked  bool
	owner   int
	readers int
	vc      []int // released by Unlock (acquired by Lock and RLock)
	vcR     []int // joined by RUnlock (acquired by Lock only: readers do not order each other)
}

type condState struct {
	waiters []*Thread
	vc      []int
}

type wgState struct {
	n  int64
	vc []int
}

type onceState struct {
	done bool
	vc   []int
}

func (e *Engine) mutex(p *Value) *mutexState {
	if p == nil {
		panic(targetPanic{Iface{types.Typ[types.String], Str{s: "nil mutex"}}})
	}
	m := e.mutexes[p]
	if m == nil {
		m = &mutexState{}
		e.mutexes[p] = m
	}
	return m
}

func (th *Thread) mutexLock(p *Value) {
	e := th.eng
	m := e.mutex(p)
	th.yield("Lock")
	th.block("mutex.Lock", func() bool { return !m.locked && m.readers == 0 })
	m.locked = true
	m.owner = th.id
	if e.race != nil {
		e.race.acquire(th, &m.vc)
		e.race.acquire(th, &m.vcR)
	}
}

func (th *Thread) mutexUnlock(p *Value) {
	e := th.eng
	m := e.mutex(p)
	th.yield("Unlock")
	if !m.locked {
		panic(targetPanic{Iface{types.Typ[types.String], Str{s: "fatal error: sync: unlock of unlocked mutex"}}})
	}
	if e.race != nil {
		e.race.release(th, &m.vc)
	}
	m.locked = false
}

func (th *Thread) mutexRLock(p *Value) {
	e := th.eng
	m := e.mutex(p)
	th.yield("RLock")
	th.block("rwmutex.RLock", func() bool { return !m.locked })
	m.readers++
	if e.race != nil {
		e.race.acquire(th, &m.vc)
	}
}

func (th *Thread) mutexRUnlock(p *Value) {
	e := th.eng
	m := e.mutex(p)
	th.yield("RUnlock")
	if m.readers <= 0 {
		panic(targetPanic{Iface{types.Typ[types.String], Str{s: "fatal error: sync: RUnlock of unlocked RWMutex"}}})
	}
	if e.race != nil {
		e.race.releaseJoin(th, &m.vcR)
	}
	m.readers--
}

func (e *Engine) condOf(p *Value) *condState {
	c := e.conds[p]
	if c == nil {
		c = &condState{}
		e.conds[p] = c
	}
	return c
}

// condL returns the Locker stored in a sync.Cond struct.
func (th *Thread) condLocker(p *Value) Iface {
	st := (*p).(Struct)
	// sync.Cond{noCopy, L, notify, checker}: find the interface field
	for _, f := range st {
		if iv, ok := f.(Iface); ok {
			return iv
		}
	}
	panic("sync.Cond without Locker field")
}

func (th *Thread) lockerCall(l Iface, method string) {
	e := th.eng
	if l.t == nil {
		th.goPanic("nil Locker")
	}
	f := e.w.prog.LookupMethod(l.t, nil, method)
	if f == nil {
		panic("Locker without " + method)
	}
	th.call(nil, 0, f, []Value{l.v})
}

func (th *Thread) condWait(p *Value) {
	e := th.eng
	c := e.condOf(p)
	l := th.condLocker(p)
	th.yield("Cond.Wait")
	th.noPoints++
	c.waiters = append(c.waiters, th)
	th.signaled = false
	th.lockerCall(l, "Unlock")
	th.block("cond.Wait", func() bool { return th.signaled })
	if e.race != nil {
		e.race.acquire(th, &c.vc)
	}
	th.lockerCall(l, "Lock")
	th.noPoints--
}

func (th *Thread) condBroadcast(p *Value, all bool) {
	e := th.eng
	c := e.condOf(p)
	th.yield("Broadcast")
	if e.race != nil {
		e.race.release(th, &c.vc)
	}
	if all {
		for _, w := range c.waiters {
			w.signaled = true
		}
		c.waiters = nil
	} else if len(c.waiters) > 0 {
		c.waiters[0].signaled = true
		c.waiters = c.waiters[1:]
	}
}

func (e *Engine) wgOf(p *Value) *wgState {
	w := e.wgs[p]
	if w == nil {
		w = &wgState{}
		e.wgs[p] = w
	}
	return w
}

func (th *Thread) wgAdd(p *Value, d int64) {
	e := th.eng
	w := e.wgOf(p)
	th.yield("WaitGroup.Add")
	if e.race != nil {
		e.race.release(th, &w.vc)
	}
	w.n += d
	if w.n < 0 {
		panic(targetPanic{Iface{types.Typ[types.String], Str{s: "sync: negative WaitGroup counter"}}})
	}
}

func (th *Thread) wgWait(p *Value) {
	e := th.eng
	w := e.wgOf(p)
	th.yield("WaitGroup.Wait")
	th.block("WaitGroup.Wait", func() bool { return w.n == 0 })
	if e.race != nil {
		e.race.acquire(th, &w.vc)
	}
}

func (th *Thread) onceDo(p *Value, f Value) {
	e := th.eng
	o := e.onces[p]
	if o == nil {
		o = &onceState{}
		e.onces[p] = o
	}
	if o.done {
		if e.race != nil {
			e.race.acquire(th, &o.vc)
		}
		return
	}
	o.done = true // (no concurrent Do of the same Once in the harnesses)
	th.call(nil, 0, f, nil)
	if e.race != nil {
		e.race.release(th, &o.vc)
	}
}

// ---------------------------------------------------------------------------
// channels (only what the code under test uses: close, receive, select)

func (th *Thread) chanClose(c *Chan) {
	if c == nil {
		th.goPanic("close of nil channel")
	}
	if c.closed {
		th.goPanic("close of closed channel")
	}
	c.closed = true
	th.visible = false
	th.yield("close")
}

func (th *Thread) chanSend(c *Chan, v Value) {
	if c == nil {
		th.block("send on nil chan", func() bool { return false })
	}
	if c.closed {
		th.goPanic("send on closed channel")
	}
	th.visible = false
	th.yield("send")
	if c.cap == 0 {
		// rendezvous approximated by a one-slot buffer drained by the receiver
		th.block("chan send", func() bool { return len(c.buf) == 0 || c.closed })
		c.buf = append(c.buf, v)
		return
	}
	th.block("chan send", func() bool { return len(c.buf) < c.cap || c.closed })
	if c.closed {
		th.goPanic("send on closed channel")
	}
	c.buf = append(c.buf, v)
}

func (th *Thread) chanRecv(c *Chan, commaOk bool, et types.Type) Value {
	e := th.eng
	p := e.pool
	if c == nil {
		th.block("recv on nil chan", func() bool { return false })
	}
	th.visible = false
	th.yield("recv")
	th.block("chan recv", func() bool { return len(c.buf) > 0 || c.closed })
	var v Value
	ok := false
	if len(c.buf) > 0 {
		v, ok = c.buf[0], true
		c.buf = c.buf[1:]
	} else {
		v = e.zero(et)
	}
	if commaOk {
		return Tuple{v, p.Bool(ok)}
	}
	return v
}

func (th *Thread) selectInstr(fr *frame, instr *ssa.Select) Value {
	e := th.eng
	p := e.pool
	// result tuple: (index int, recvOk bool, r_0 T_0, ... r_n-1 T_n-1) for receive states
	type st struct {
		c    *Chan
		send bool
		v    Value
		et   types.Type
	}
	var states []st
	for _, s := range instr.States {
		c, _ := fr.get(s.Chan).(*Chan)
		x := st{c: c, send: s.Dir == types.SendOnly, et: s.Chan.Type().Underlying().(*types.Chan).Elem()}
		if x.send {
			x.v = fr.get(s.Send)
		}
		states = append(states, x)
	}
	ready := func() int {
		for i, s := range states {
			if s.c == nil {
				continue
			}
			if s.send {
				if s.c.closed || len(s.c.buf) < s.c.cap {
					return i
				}
			} else if len(s.c.buf) > 0 || s.c.closed {
				return i
			}
		}
		return -1
	}
	th.visible = false
	th.yield("select")
	idx := ready()
	if idx < 0 && instr.Blocking {
		th.block("select", func() bool { return ready() >= 0 })
		idx = ready()
	}
	res := Tuple{p.BV(uint64(int64(idx)), 64), p.False}
	for i, s := range states {
		if s.send {
			continue
		}
		var v Value = e.zero(s.et)
		if i == idx {
			if len(s.c.buf) > 0 {
				v = s.c.buf[0]
				s.c.buf = s.c.buf[1:]
				res[1] = p.True
			}
		}
		res = append(res, v)
	}
	if idx >= 0 && states[idx].send {
		if states[idx].c.closed {
			th.goPanic("send on closed channel")
		}
		states[idx].c.buf = append(states[idx].c.buf, states[idx].v)
	}
	return res
}
