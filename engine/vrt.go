package main

// The harness runtime as seen by the engine: calls to the in-package vrt*
// functions (declared, with native bodies, in the overlay file
// zz_verif_rt.go) are intercepted here.

import (
	"fmt"
	"go/types"
	"strings"
)

var vrtIntrinsics map[string]intrinsic

type obsPart struct {
	kind  byte // 'i' signed, 'u' unsigned, 'b' bool, 'x' bytes, 'k' constant text
	w     int
	terms []*Term
	text  string
}

type observe struct {
	name  string
	parts []obsPart
}

func renderObserve(o observe, m Model, memo map[*Term]uint64) string {
	var sb strings.Builder
	sb.WriteString(o.name)
	for _, pt := range o.parts {
		sb.WriteByte(' ')
		switch pt.kind {
		case 'i':
			sb.WriteString(fmt.Sprint(sext64(pt.terms[0].Eval(m, memo), pt.w)))
		case 'u':
			sb.WriteString(fmt.Sprint(pt.terms[0].Eval(m, memo)))
		case 'b':
			sb.WriteString(fmt.Sprint(pt.terms[0].Eval(m, memo) == 1))
		case 'x':
			sb.WriteString("x:")
			for _, t := range pt.terms {
				sb.WriteString(fmt.Sprintf("%02x", t.Eval(m, memo)))
			}
		case 'k':
			sb.WriteString(pt.text)
		}
	}
	return sb.String()
}

func strArg(v Value) string {
	s, ok := v.(Str).Concrete()
	if !ok {
		panic(inconclusive{"symbolic string passed as vrt name"})
	}
	return s
}

func init() {
	mkInt := func(w int) intrinsic {
		return func(fr *frame, a []Value) Value {
			return fr.th.eng.path.NewVar(strArg(a[0]), w)
		}
	}
	vrtIntrinsics = map[string]intrinsic{
		"vrtByte":   mkInt(8),
		"vrtUint16": mkInt(16),
		"vrtUint32": mkInt(32),
		"vrtUint64": mkInt(64),
		"vrtInt64":  mkInt(64),
		"vrtBool": func(fr *frame, a []Value) Value {
			return fr.th.eng.path.NewVar(strArg(a[0]), 0)
		},
		// vrtInt(name, lo, hi): lo <= v <= hi (signed), lo/hi concrete
		"vrtInt": func(fr *frame, a []Value) Value {
			e := fr.th.eng
			p := e.pool
			v := e.path.NewVar(strArg(a[0]), 64)
			e.path.Assume(p.BAnd(p.Cmp(OpSle, a[1].(*Term), v), p.Cmp(OpSle, v, a[2].(*Term))))
			return v
		},
		// vrtChoice(name, n): 0 <= v < n, concretised at once (forks n ways)
		"vrtChoice": func(fr *frame, a []Value) Value {
			e := fr.th.eng
			p := e.pool
			v := e.path.NewVar(strArg(a[0]), 64)
			e.path.Assume(p.Cmp(OpUlt, v, a[1].(*Term)))
			return p.BV(e.path.Concretize(v, "vrtChoice"), 64)
		},
		"vrtConcretize": func(fr *frame, a []Value) Value {
			e := fr.th.eng
			t := a[0].(*Term)
			return e.pool.BV(e.path.Concretize(t, "vrtConcretize"), t.W)
		},
		// vrtBytes(name, max): symbolic length 0..max, cap == len
		"vrtBytes": func(fr *frame, a []Value) Value {
			e := fr.th.eng
			p := e.pool
			name := strArg(a[0])
			max := e.path.Concretize(a[1].(*Term), "vrtBytes max")
			n := e.path.NewVar(name+".len", 64)
			e.path.Assume(p.Cmp(OpUle, n, p.BV(max, 64)))
			data := make([]Value, max)
			for i := range data {
				data[i] = e.path.NewVar(fmt.Sprintf("%s[%d]", name, i), 8)
			}
			return Slice{data: data, off: p.BV(0, 64), ln: n, cp: n}
		},
		// vrtBytesL(name, max): like vrtBytes, but the length is concretised at once (forks per length)
		"vrtBytesL": func(fr *frame, a []Value) Value {
			e := fr.th.eng
			p := e.pool
			name := strArg(a[0])
			max := e.path.Concretize(a[1].(*Term), "vrtBytesL max")
			n := e.path.NewVar(name+".len", 64)
			e.path.Assume(p.Cmp(OpUle, n, p.BV(max, 64)))
			data := make([]Value, max)
			for i := range data {
				data[i] = e.path.NewVar(fmt.Sprintf("%s[%d]", name, i), 8)
			}
			k := e.path.Concretize(n, "vrtBytesL len")
			kk := p.BV(k, 64)
			return Slice{data: data[:k:k], off: p.BV(0, 64), ln: kk, cp: kk}
		},
		// vrtArrayBytes(n): n zero bytes held in one SMT array (symbolic indexing without forking)
		"vrtArrayBytes": func(fr *frame, a []Value) Value {
			e := fr.th.eng
			p := e.pool
			n := e.path.Concretize(a[0].(*Term), "vrtArrayBytes n")
			e.narr++
			obj := &ArrObj{name: fmt.Sprintf("arr%d", e.narr), arr: p.ConstArr(p.BV(0, 8)), size: int64(n)}
			nn := p.BV(n, 64)
			return Slice{arr: obj, off: p.BV(0, 64), ln: nn, cp: nn}
		},
		// vrtBytesN(name, n): exactly n symbolic bytes (n concrete), cap == len
		"vrtBytesN": func(fr *frame, a []Value) Value {
			e := fr.th.eng
			p := e.pool
			name := strArg(a[0])
			n := e.path.Concretize(a[1].(*Term), "vrtBytesN n")
			data := make([]Value, n)
			for i := range data {
				data[i] = e.path.NewVar(fmt.Sprintf("%s[%d]", name, i), 8)
			}
			nn := p.BV(n, 64)
			return Slice{data: data, off: p.BV(0, 64), ln: nn, cp: nn}
		},
		"vrtAssume": func(fr *frame, a []Value) Value {
			fr.th.eng.path.Assume(a[0].(*Term))
			return nil
		},
		"vrtAssert": func(fr *frame, a []Value) Value {
			fr.th.eng.path.Obligation(strArg(a[0]), a[1].(*Term))
			return nil
		},
		"vrtReach": func(fr *frame, a []Value) Value {
			fr.th.eng.path.reached[strArg(a[0])] = true
			return nil
		},
		"vrtAnd": func(fr *frame, a []Value) Value {
			return fr.th.eng.pool.BAnd(a[0].(*Term), a[1].(*Term))
		},
		"vrtOr": func(fr *frame, a []Value) Value {
			return fr.th.eng.pool.BOr(a[0].(*Term), a[1].(*Term))
		},
		"vrtNot": func(fr *frame, a []Value) Value {
			return fr.th.eng.pool.BNot(a[0].(*Term))
		},
		"vrtImplies": func(fr *frame, a []Value) Value {
			p := fr.th.eng.pool
			return p.BOr(p.BNot(a[0].(*Term)), a[1].(*Term))
		},
		"vrtIteInt": func(fr *frame, a []Value) Value {
			return fr.th.eng.pool.Ite(a[0].(*Term), a[1].(*Term), a[2].(*Term))
		},
		"vrtIteByte": func(fr *frame, a []Value) Value {
			return fr.th.eng.pool.Ite(a[0].(*Term), a[1].(*Term), a[2].(*Term))
		},
		// vrtBytesEq(a, b): term for bytes.Equal without forking on contents
		"vrtBytesEq": func(fr *frame, a []Value) Value {
			th := fr.th
			e := th.eng
			p := e.pool
			x, y := a[0].(Slice), a[1].(Slice)
			if !e.path.Branch(p.Cmp(OpEq, x.ln, y.ln)) {
				return p.False
			}
			n := e.path.Concretize(x.ln, "vrtBytesEq len")
			r := p.True
			for i := uint64(0); i < n; i++ {
				r = p.BAnd(r, p.Cmp(OpEq, th.byteAt(x, i), th.byteAt(y, i)))
			}
			return r
		},
		"vrtObserve": func(fr *frame, a []Value) Value {
			th := fr.th
			e := th.eng
			o := observe{name: strArg(a[0])}
			for _, c := range th.sliceCells(a[1].(Slice), "observe args") {
				o.parts = append(o.parts, th.obsPart(c.(Iface)))
			}
			e.path.observes = append(e.path.observes, o)
			return nil
		},
		// vrtBound(name, def): a concrete bound, overridable per tier (-bounds)
		"vrtBound": func(fr *frame, a []Value) Value {
			e := fr.th.eng
			name := strArg(a[0])
			v, ok := e.w.cfg.Bounds[name]
			if !ok {
				v = int64(e.path.Concretize(a[1].(*Term), "vrtBound default"))
			}
			e.path.bounds[name] = v
			return e.pool.BV(uint64(v), 64)
		},
		// vrtGo(f): start f as a new thread; vrtJoin(): wait until every started thread has finished
		"vrtGo": func(fr *frame, a []Value) Value {
			fr.th.visible = false
			fr.th.spawn(fr, fr.callpos, a[0], nil)
			fr.th.eng.threads[len(fr.th.eng.threads)-1].joinable = true
			return nil
		},
		"vrtJoin": func(fr *frame, a []Value) Value {
			th := fr.th
			th.visible = false
			th.block("vrtJoin", func() bool {
				for _, t := range th.eng.threads {
					if t != th && t.joinable && !t.finished {
						return false
					}
				}
				return true
			})
			return nil
		},
		// vrtQuiesce(): let every library thread run until all of them are blocked or finished
		"vrtQuiesce": func(fr *frame, a []Value) Value {
			th := fr.th
			th.visible = false
			th.quiescing = true
			th.block("vrtQuiesce", func() bool {
				for _, t := range th.eng.threads {
					if t != th && !t.quiescing && t.couldRun() {
						return false // (a preempted thread must get its turn before the system is quiescent)
					}
				}
				return true
			})
			th.quiescing = false
			return nil
		},
		// vrtSettle(): like vrtQuiesce, but a thread suspended by a preemption is left suspended
		// (a remote peer reacts to what is on the wire while some local goroutine is stalled)
		"vrtSettle": func(fr *frame, a []Value) Value {
			th := fr.th
			th.visible = false
			th.quiescing = true
			th.block("vrtSettle", func() bool {
				for _, t := range th.eng.threads {
					if t != th && !t.quiescing && t.enabled() {
						return false
					}
				}
				return true
			})
			th.quiescing = false
			return nil
		},
		// vrtSetDialConn(c): the next net.Dial returns c; vrtDialURI(): the URI to connect to
		"vrtSetDialConn": func(fr *frame, a []Value) Value {
			e := fr.th.eng
			e.dialConn = Iface{t: fr.fn.Signature.Params().At(0).Type(), v: a[0]}
			return nil
		},
		"vrtDialURI": func(fr *frame, a []Value) Value { return Str{s: "tcp://vrt:1883"} },
		// vrtLiveThreads(): number of interpreter threads that have not finished (goroutine leak checks)
		"vrtLiveThreads": func(fr *frame, a []Value) Value {
			n := 0
			for _, t := range fr.th.eng.threads {
				if !t.finished {
					n++
				}
			}
			return fr.th.eng.pool.BV(uint64(n), 64)
		},
		"vrtLiveGoroutines": func(fr *frame, a []Value) Value {
			n := 0
			for _, t := range fr.th.eng.threads {
				if !t.finished {
					n++
				}
			}
			return fr.th.eng.pool.BV(uint64(n), 64)
		},
		// harness clock (ns): vrtClock() reads, vrtClockSet(ns) sets; time.Now() returns it
		"vrtClock": func(fr *frame, a []Value) Value { return fr.th.eng.clock },
		"vrtClockSet": func(fr *frame, a []Value) Value {
			fr.th.eng.clock = a[0].(*Term)
			return nil
		},
		"vrtTimeNS": func(fr *frame, a []Value) Value { return timeNS(a[0]) },
		"vrtSymbolic": func(fr *frame, a []Value) Value { return fr.th.eng.pool.True },
		"vrtNote": func(fr *frame, a []Value) Value {
			fr.th.eng.note(strArg(a[0]))
			return nil
		},
	}
}

func (th *Thread) obsPart(iv Iface) obsPart {
	if iv.t == nil {
		return obsPart{kind: 'k', text: "nil"}
	}
	switch v := iv.v.(type) {
	case *Term:
		w, signed, _ := intInfo(iv.t)
		switch {
		case w == 0:
			return obsPart{kind: 'b', terms: []*Term{v}}
		case signed:
			return obsPart{kind: 'i', w: w, terms: []*Term{v}}
		default:
			return obsPart{kind: 'u', w: w, terms: []*Term{v}}
		}
	case Str:
		pt := obsPart{kind: 'x'}
		for i := 0; i < v.Len(); i++ {
			pt.terms = append(pt.terms, v.At(th.eng.pool, i))
		}
		return pt
	case Slice:
		if isByteSlice(iv.t) {
			pt := obsPart{kind: 'x'}
			n := th.eng.path.Concretize(v.ln, "observe bytes len")
			for i := uint64(0); i < n; i++ {
				pt.terms = append(pt.terms, th.byteAt(v, i))
			}
			return pt
		}
	}
	if types.Implements(iv.t, errorIface) || types.Implements(types.NewPointer(iv.t), errorIface) {
		return obsPart{kind: 'k', text: "err"}
	}
	return obsPart{kind: 'k', text: "?"}
}

var errorIface = types.Universe.Lookup("error").Type().Underlying().(*types.Interface)
