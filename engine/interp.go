package main

// SSA interpreter: frames, instructions, calls, defer/panic/recover.
// Structure follows x/tools go/ssa/interp; data is symbolic (value.go).

import (
	"os"
	"fmt"
	"go/constant"
	"go/token"
	"go/types"
	"strings"

	"golang.org/x/tools/go/ssa"
)

func constantBool(c *ssa.Const) bool     { return constant.BoolVal(c.Value) }
func constantString(c *ssa.Const) string { return constant.StringVal(c.Value) }

type noopCall struct{ res *types.Tuple }

type deferred struct {
	fn    Value
	args  []Value
	instr *ssa.Defer
	tail  *deferred
}

type frame struct {
	th               *Thread
	caller           *frame
	fn               *ssa.Function
	block, prevBlock *ssa.BasicBlock
	env              map[ssa.Value]Value
	locals           []Value
	defers           *deferred
	result           Value
	panicking        bool
	panic            interface{}
	phitemps         []Value
	callpos          token.Pos
}

func (fr *frame) get(key ssa.Value) Value {
	switch key := key.(type) {
	case nil:
		return nil
	case *ssa.Function, *ssa.Builtin:
		return key
	case *ssa.Const:
		return fr.th.eng.constValue(key)
	case *ssa.Global:
		return fr.th.eng.global(key)
	}
	if r, ok := fr.env[key]; ok {
		return r
	}
	panic(fmt.Sprintf("get: no value for %T: %v in %s", key, key.Name(), fr.fn))
}

// isEnginePanic: panics used by the engine for control (never visible to the
// interpreted program's defers/recover).
func isEnginePanic(x interface{}) bool {
	switch x.(type) {
	case abortPath, inconclusive, killThread:
		return true
	}
	return false
}

func (fr *frame) runDefer(d *deferred) {
	var ok bool
	defer func() {
		if !ok {
			r := recover()
			if isEnginePanic(r) {
				panic(r)
			}
			fr.panicking = true
			fr.panic = r
		}
	}()
	fr.th.call(fr, d.instr.Pos(), d.fn, d.args)
	ok = true
}

func (fr *frame) runDefers() {
	for d := fr.defers; d != nil; d = d.tail {
		fr.runDefer(d)
	}
	fr.defers = nil
	if fr.panicking {
		panic(fr.panic)
	}
}

func (th *Thread) call(caller *frame, callpos token.Pos, fn Value, args []Value) Value {
	switch fn := fn.(type) {
	case *ssa.Function:
		if fn == nil {
			th.goPanic("runtime error: invalid memory address or nil pointer dereference (call of nil func)")
		}
		return th.callSSA(caller, callpos, fn, args, nil)
	case *Closure:
		if fn == nil {
			th.goPanic("runtime error: invalid memory address or nil pointer dereference (call of nil func)")
		}
		return th.callSSA(caller, callpos, fn.fn, args, fn.env)
	case *ssa.Builtin:
		return th.callBuiltin(caller, callpos, fn, args)
	case rtypeMethod:
		return th.rtypeInvoke(fn)
	case noopCall:
		if fn.res.Len() == 0 {
			return nil
		}
		return th.eng.zero(fn.res)
	}
	panic(fmt.Sprintf("cannot call %T", fn))
}

func (th *Thread) goPanic(msg string) {
	th.eng.event("runtime-panic", msg+" at "+th.eng.pos(th.pos))
	th.eng.lastPanicPos = th.eng.pos(th.pos)
	panic(targetPanic{Iface{types.Typ[types.String], Str{s: msg}}})
}

func (th *Thread) callSSA(caller *frame, callpos token.Pos, fn *ssa.Function, args []Value, env []Value) Value {
	e := th.eng
	fr := &frame{th: th, caller: caller, fn: fn, callpos: callpos}
	if fn.Parent() == nil {
		name := fn.String()
		if ext, ok := intrinsics[name]; ok {
			th.visible = e.visibleCaller(caller)
			if r := ext(fr, args); r != (useBody{}) {
				return r
			}
		}
		if ext := intrinsicByPkg(fn); ext != nil {
			return ext(fr, args)
		}
		if fn.Blocks == nil {
			if fn.Pkg != nil {
				e.w.buildPkg(fn.Pkg)
			}
			if fn.Blocks == nil {
				panic(inconclusive{"unsupported external function " + name})
			}
		}
		if strings.HasSuffix(name, ".init") && fn.Synthetic != "" {
			// package initialisers are run explicitly and non-recursively
			if !e.initRunning[fn] {
				return nil
			}
		}
	}
	if fn.TypeParams().Len() > 0 && len(fn.TypeArgs()) == 0 {
		panic(inconclusive{"generic function body reached: " + fn.String()})
	}
	prevFn := th.curFn
	th.curFn = fn
	defer func() { th.curFn = prevFn }()
	th.depth++
	if th.depth > 400 {
		panic(inconclusive{"call depth limit exceeded in " + fn.String()})
	}
	defer func() { th.depth-- }()
	e.noteFunc(fn)
	fr.env = make(map[ssa.Value]Value, 16)
	fr.block = fn.Blocks[0]
	fr.locals = make([]Value, len(fn.Locals))
	for i, l := range fn.Locals {
		fr.locals[i] = e.zero(l.Type().Underlying().(*types.Pointer).Elem())
		fr.env[l] = &fr.locals[i]
	}
	for i, p := range fn.Params {
		fr.env[p] = args[i]
	}
	for i, fv := range fn.FreeVars {
		fr.env[fv] = env[i]
	}
	for fr.block != nil {
		th.runFrame(fr)
	}
	return fr.result
}

func (th *Thread) runFrame(fr *frame) {
	defer func() {
		if fr.block == nil {
			return // normal return
		}
		r := recover()
		if isEnginePanic(r) {
			panic(r)
		}
		if _, ok := r.(targetPanic); !ok {
			// interpreter bug or Go runtime error inside the engine
			panic(r)
		}
		fr.panicking = true
		fr.panic = r
		fr.runDefers()
		fr.block = fr.fn.Recover
		if fr.block == nil {
			// recovered in a function without named results: return zero values
			fr.result = th.eng.zero(fr.fn.Signature.Results())
			if fr.fn.Signature.Results().Len() == 0 {
				fr.result = nil
			}
		}
	}()
	for {
		nonPhis := th.executePhis(fr)
		for _, instr := range nonPhis {
			if th.visitInstr(fr, instr) == kReturn {
				return
			}
		}
	}
}

func (th *Thread) executePhis(fr *frame) []ssa.Instruction {
	firstNonPhi := -1
	for i, instr := range fr.block.Instrs {
		if _, ok := instr.(*ssa.Phi); !ok {
			firstNonPhi = i
			break
		}
	}
	nonPhis := fr.block.Instrs[firstNonPhi:]
	if firstNonPhi > 0 {
		phis := fr.block.Instrs[:firstNonPhi]
		predIndex := -1
		for i, b := range fr.block.Preds {
			if b == fr.prevBlock {
				predIndex = i
				break
			}
		}
		fr.phitemps = fr.phitemps[:0]
		for _, phi := range phis {
			fr.phitemps = append(fr.phitemps, fr.get(phi.(*ssa.Phi).Edges[predIndex]))
		}
		for i, phi := range phis {
			fr.env[phi.(*ssa.Phi)] = fr.phitemps[i]
		}
	}
	return nonPhis
}

type continuation int

const (
	kNext continuation = iota
	kReturn
	kJump
)

func (th *Thread) prepareCall(fr *frame, call *ssa.CallCommon) (fn Value, args []Value) {
	v := fr.get(call.Value)
	if call.Method == nil {
		fn = v
	} else {
		recv := v.(Iface)
		if call.Method.Pkg() != nil && call.Method.Pkg().Path() == "github.com/mdzio/go-logging" {
			// logging is stubbed out (arguments were already evaluated)
			return noopCall{call.Method.Type().(*types.Signature).Results()}, nil
		}
		if recv.t == nil {
			th.goPanic("runtime error: invalid memory address or nil pointer dereference (method call on nil interface)")
		}
		if recv.t == rtypeMarker {
			return rtypeMethod{call.Method.Name(), recv.v.(*rtypeObj).t}, nil
		}
		f := th.eng.w.prog.LookupMethod(recv.t, call.Method.Pkg(), call.Method.Name())
		if f == nil {
			panic(fmt.Sprintf("method set for dynamic type %v does not contain %s", recv.t, call.Method))
		}
		fn = f
		args = append(args, recv.v)
	}
	for _, arg := range call.Args {
		args = append(args, fr.get(arg))
	}
	return
}

var traceOn = os.Getenv("GOSMT_TRACE") != ""

func (th *Thread) visitInstr(fr *frame, instr ssa.Instruction) continuation {
	if traceOn {
		if v, ok := instr.(ssa.Value); ok {
			defer func() { fmt.Fprintf(os.Stderr, "TRACE t%d %s: %s = %s  => %v\n", th.id, fr.fn.Name(), v.Name(), instr, fr.env[v]) }()
		} else {
			fmt.Fprintf(os.Stderr, "TRACE t%d %s: %s\n", th.id, fr.fn.Name(), instr)
		}
	}
	e := th.eng
	p := e.pool
	e.path.steps++
	if ip := instr.Pos(); ip != token.NoPos {
		th.pos = ip
	}
	if e.path.steps > e.w.cfg.MaxSteps {
		if e.spinSuspect != "" {
			panic(livelockEvent{e.spinSuspect + " (step limit)"})
		}
		panic(inconclusive{"step limit exceeded"})
	}
	switch instr := instr.(type) {
	case *ssa.DebugRef:

	case *ssa.UnOp:
		fr.env[instr] = th.unop(instr, fr.get(instr.X))

	case *ssa.BinOp:
		fr.env[instr] = th.binop(instr.Op, instr.X.Type(), fr.get(instr.X), fr.get(instr.Y))

	case *ssa.Call:
		fn, args := th.prepareCall(fr, &instr.Call)
		fr.env[instr] = th.call(fr, instr.Pos(), fn, args)

	case *ssa.ChangeInterface:
		fr.env[instr] = fr.get(instr.X)

	case *ssa.ChangeType:
		fr.env[instr] = fr.get(instr.X)

	case *ssa.Convert:
		fr.env[instr] = th.conv(instr.Type(), instr.X.Type(), fr.get(instr.X))

	case *ssa.MakeInterface:
		fr.env[instr] = Iface{t: instr.X.Type(), v: fr.get(instr.X)}

	case *ssa.Extract:
		fr.env[instr] = fr.get(instr.Tuple).(Tuple)[instr.Index]

	case *ssa.Slice:
		fr.env[instr] = th.slice(instr, fr.get(instr.X), fr.get(instr.Low), fr.get(instr.High), fr.get(instr.Max))

	case *ssa.Return:
		switch len(instr.Results) {
		case 0:
		case 1:
			fr.result = fr.get(instr.Results[0])
		default:
			var res []Value
			for _, r := range instr.Results {
				res = append(res, fr.get(r))
			}
			fr.result = Tuple(res)
		}
		fr.block = nil
		return kReturn

	case *ssa.RunDefers:
		fr.runDefers()

	case *ssa.Panic:
		panic(targetPanic{fr.get(instr.X)})

	case *ssa.Send:
		th.chanSend(fr.get(instr.Chan).(*Chan), fr.get(instr.X))

	case *ssa.Store:
		th.store(instr.Val.Type(), fr.get(instr.Addr), fr.get(instr.Val))

	case *ssa.If:
		succ := 1
		if e.path.Branch(fr.get(instr.Cond).(*Term)) {
			succ = 0
		}
		fr.prevBlock, fr.block = fr.block, fr.block.Succs[succ]
		th.loopCheck(fr)
		return kJump

	case *ssa.Jump:
		fr.prevBlock, fr.block = fr.block, fr.block.Succs[0]
		th.loopCheck(fr)
		return kJump

	case *ssa.Defer:
		fn, args := th.prepareCall(fr, &instr.Call)
		fr.defers = &deferred{fn: fn, args: args, instr: instr, tail: fr.defers}

	case *ssa.Go:
		fn, args := th.prepareCall(fr, &instr.Call)
		th.spawn(fr, instr.Pos(), fn, args)

	case *ssa.MakeChan:
		n := e.path.Concretize(fr.get(instr.Size).(*Term), "chan size")
		e.nchan++
		fr.env[instr] = &Chan{cap: int(n), id: e.nchan}

	case *ssa.Alloc:
		var addr *Value
		if instr.Heap {
			addr = new(Value)
			fr.env[instr] = addr
		} else {
			addr = fr.env[instr].(*Value)
		}
		*addr = e.zero(instr.Type().Underlying().(*types.Pointer).Elem())

	case *ssa.MakeSlice:
		lt := th.toInt64(fr.get(instr.Len).(*Term), instr.Len.Type())
		ct := th.toInt64(fr.get(instr.Cap).(*Term), instr.Cap.Type())
		et := instr.Type().Underlying().(*types.Slice).Elem()
		if !ct.IsConst() || !lt.IsConst() {
			// Go panics for a negative or absurd size; a size above the ceiling is an allocation event
			th.check(p.Cmp(OpSle, p.BV(0, 64), lt), "runtime error: makeslice: len out of range")
			th.check(p.Cmp(OpSle, lt, ct), "runtime error: makeslice: cap out of range")
			if !e.path.Branch(p.Cmp(OpSle, ct, p.BV(uint64(e.w.cfg.AllocCeiling), 64))) {
				e.event("alloc", fmt.Sprintf("make of more than %d elements at %s", e.w.cfg.AllocCeiling, e.pos(instr.Pos())))
				e.lastPanicPos = e.pos(instr.Pos())
				panic(targetPanic{Iface{types.Typ[types.String], Str{s: "allocation above the ceiling (fatal: out of memory)"}}})
			}
			if b, ok := et.Underlying().(*types.Basic); ok && b.Kind() == types.Uint8 && !(e.path.FewValues(lt, 64) && e.path.FewValues(ct, 64)) {
				// symbolic size with many values: a zeroed byte object held in one SMT array
				e.narr++
				obj := &ArrObj{name: fmt.Sprintf("arr%d", e.narr), arr: p.ConstArr(p.BV(0, 8)), size: -1}
				fr.env[instr] = Slice{arr: obj, off: p.BV(0, 64), ln: lt, cp: ct}
				break
			}
		}
		n := int64(e.path.Concretize(lt, "make len"))
		c := int64(e.path.Concretize(ct, "make cap"))
		if n < 0 || c < n {
			th.goPanic("runtime error: makeslice: len out of range")
		}
		if c > e.w.cfg.AllocCeiling {
			e.event("alloc", fmt.Sprintf("make of %d elements exceeds ceiling %d at %s", c, e.w.cfg.AllocCeiling, e.pos(instr.Pos())))
			th.goPanic("allocation above the ceiling (fatal: out of memory)")
		}
		if c > 1<<22 {
			panic(inconclusive{fmt.Sprintf("concrete allocation of %d elements", c)})
		}
		data := make([]Value, c)
		z := e.zero(et)
		for i := range data {
			data[i] = copyVal(z)
		}
		fr.env[instr] = Slice{data: data, off: p.BV(0, 64), ln: p.BV(uint64(n), 64), cp: p.BV(uint64(c), 64)}

	case *ssa.MakeMap:
		fr.env[instr] = &Map{kt: instr.Type().Underlying().(*types.Map).Key()}

	case *ssa.Range:
		fr.env[instr] = th.rangeIter(fr.get(instr.X), instr.X.Type())

	case *ssa.Next:
		fr.env[instr] = th.next(fr.get(instr.Iter), instr)

	case *ssa.FieldAddr:
		x := fr.get(instr.X).(*Value)
		if x == nil {
			th.goPanic("runtime error: invalid memory address or nil pointer dereference")
		}
		fr.env[instr] = &(*x).(Struct)[instr.Field]

	case *ssa.Field:
		fr.env[instr] = copyVal(fr.get(instr.X).(Struct)[instr.Field])

	case *ssa.IndexAddr:
		fr.env[instr] = th.indexAddr(instr, fr.get(instr.X), fr.get(instr.Index).(*Term))

	case *ssa.Index:
		x := fr.get(instr.X)
		idx := fr.get(instr.Index).(*Term)
		switch x := x.(type) {
		case Array:
			k := th.boundsIndex(idx, instr.Index.Type(), p.BV(uint64(len(x)), 64))
			fr.env[instr] = copyVal(x[k])
		case Str:
			k := th.boundsIndex(idx, instr.Index.Type(), p.BV(uint64(x.Len()), 64))
			fr.env[instr] = x.At(p, int(k))
		default:
			panic(fmt.Sprintf("Index on %T", x))
		}

	case *ssa.Lookup:
		fr.env[instr] = th.lookup(instr, fr.get(instr.X), fr.get(instr.Index))

	case *ssa.MapUpdate:
		m := fr.get(instr.Map).(*Map)
		if m == nil {
			th.goPanic("assignment to entry in nil map")
		}
		th.mapInsert(m, fr.get(instr.Key), copyVal(fr.get(instr.Value)))

	case *ssa.TypeAssert:
		fr.env[instr] = th.typeAssert(instr, fr.get(instr.X).(Iface))

	case *ssa.MakeClosure:
		var bindings []Value
		for _, b := range instr.Bindings {
			bindings = append(bindings, fr.get(b))
		}
		fr.env[instr] = &Closure{instr.Fn.(*ssa.Function), bindings}

	case *ssa.Phi:
		panic("unexpected phi")

	case *ssa.Select:
		fr.env[instr] = th.selectInstr(fr, instr)

	case *ssa.SliceToArrayPointer, *ssa.MultiConvert:
		panic(inconclusive{fmt.Sprintf("unsupported instruction %T", instr)})

	default:
		panic(fmt.Sprintf("unexpected instruction: %T", instr))
	}
	return kNext
}

// loopCheck enforces the unwinding limit per (frame, block).
func (th *Thread) loopCheck(fr *frame) {
	if fr.block.Index > fr.prevBlock.Index {
		return // forward edge
	}
	e := th.eng
	key := fr.fn.String() + "#" + fmt.Sprint(fr.block.Index)
	if fr.phitemps == nil {
		fr.phitemps = make([]Value, 0, 4)
	}
	th.loopCount[loopKey{fr, fr.block.Index}]++
	n := th.loopCount[loopKey{fr, fr.block.Index}]
	if n > e.path.loopHits[key] {
		e.path.loopHits[key] = n
	}
	if n%1000 == 0 {
		// (with a large unwinding limit the step limit ends the path first: remember the suspicion for then)
		if d := th.spinCandidate(fr, key, n); d != "" {
			e.spinSuspect = d
		}
	}
	if n > e.w.cfg.Unwind {
		if d := th.spinCandidate(fr, key, n); d != "" {
			panic(livelockEvent{d})
		}
		panic(inconclusive{fmt.Sprintf("unwinding limit %d reached in %s", e.w.cfg.Unwind, key)})
	}
}

// spinCandidate: a loop of the code under test (not of a harness) that is still turning after n iterations
// while no other thread could run - everybody else is blocked or finished, so nobody can change what this
// loop waits for - is a livelock CANDIDATE. It only becomes a violation if the native replay confirms it
// (a goroutine still burning CPU after the scenario: vcheck); otherwise it stays what every unwinding
// failure is: inconclusive.
func (th *Thread) spinCandidate(fr *frame, key string, n int) string {
	e := th.eng
	if !e.loopIsInRepo(fr) {
		return ""
	}
	for _, t := range e.threads {
		if t != th && t.couldRun() && !t.quiescing {
			return ""
		}
	}
	return fmt.Sprintf("thread %d (%s) still turns in %s after %d iterations while no other thread can run", th.id, th.name, key, n)
}

type livelockEvent struct{ detail string }

// loopIsInRepo: the function belongs to one of the repository's packages and is not harness code.
func (e *Engine) loopIsInRepo(fr *frame) bool {
	fn := fr.fn
	if fn == nil || fn.Pkg == nil {
		if fn != nil && fn.Parent() != nil {
			fn = fn.Parent()
		}
		if fn == nil || fn.Pkg == nil {
			return false
		}
	}
	if !strings.HasPrefix(fn.Pkg.Pkg.Path(), "github.com/mdzio/go-mqtt") {
		return false
	}
	file := e.w.prog.Fset.Position(fn.Pos()).Filename
	return !strings.Contains(file, "zz_verif_")
}

type loopKey struct {
	fr  *frame
	blk int
}

// ---------------------------------------------------------------------------
// memory

func (th *Thread) load(T types.Type, addr Value) Value {
	switch a := addr.(type) {
	case *Value:
		if a == nil {
			th.goPanic("runtime error: invalid memory address or nil pointer dereference")
		}
		th.eng.access(th, a, false)
		return copyVal(*a)
	case *ArrPtr:
		if a == nil {
			th.goPanic("runtime error: invalid memory address or nil pointer dereference")
		}
		return th.eng.pool.Select(a.obj.arr, a.idx)
	}
	panic(fmt.Sprintf("load from %T", addr))
}

// storeInto assigns v to the cell a. Structs and arrays are assigned element by
// element IN PLACE (as go/ssa/interp does): addresses of fields / elements taken
// before a whole-value store (the builder emits "&b.f ...; *b = T{}; *&b.f = x"
// for "*b = T{f: x}") stay valid.
func (th *Thread) storeInto(a *Value, v Value) {
	switch nv := v.(type) {
	case Struct:
		if old, ok := (*a).(Struct); ok && len(old) == len(nv) {
			th.eng.access(th, a, true)
			for i := range old {
				th.storeInto(&old[i], nv[i])
			}
			return
		}
	case Array:
		if old, ok := (*a).(Array); ok && len(old) == len(nv) {
			th.eng.access(th, a, true)
			for i := range old {
				th.storeInto(&old[i], nv[i])
			}
			return
		}
	}
	th.eng.access(th, a, true)
	*a = copyVal(v)
}

func (th *Thread) store(T types.Type, addr Value, v Value) {
	switch a := addr.(type) {
	case *Value:
		if a == nil {
			th.goPanic("runtime error: invalid memory address or nil pointer dereference")
		}
		th.storeInto(a, v)
		return
	case *ArrPtr:
		if a == nil {
			th.goPanic("runtime error: invalid memory address or nil pointer dereference")
		}
		a.obj.arr = th.eng.pool.Store(a.obj.arr, a.idx, v.(*Term))
		return
	}
	panic(fmt.Sprintf("store to %T", addr))
}

// check branches on a runtime-check condition; the failing side is a Go panic.
func (th *Thread) check(ok *Term, msg string) {
	if !th.eng.path.Branch(ok) {
		th.goPanic(msg)
	}
}

// boundsIndex checks 0 <= idx < n and returns idx concretised.
func (th *Thread) boundsIndex(idx *Term, it types.Type, n *Term) uint64 {
	p := th.eng.pool
	idx = th.toInt64(idx, it)
	th.check(p.Cmp(OpUlt, idx, n), "runtime error: index out of range")
	return th.eng.path.Concretize(idx, "index")
}

// toInt64 widens an index/length value to 64 bits according to its type.
func (th *Thread) toInt64(v *Term, t types.Type) *Term {
	p := th.eng.pool
	if v.W == 64 {
		return v
	}
	_, signed, _ := intInfo(t)
	if signed {
		return p.SExt(v, 64)
	}
	return p.ZExt(v, 64)
}

func (th *Thread) indexAddr(instr *ssa.IndexAddr, x Value, idx *Term) Value {
	e := th.eng
	p := e.pool
	idx = th.toInt64(idx, instr.Index.Type())
	switch x := x.(type) {
	case *Value: // *array
		if x == nil {
			th.goPanic("runtime error: invalid memory address or nil pointer dereference")
		}
		a := (*x).(Array)
		th.check(p.Cmp(OpUlt, idx, p.BV(uint64(len(a)), 64)), "runtime error: index out of range")
		k := e.path.Concretize(idx, "array index")
		return &a[k]
	case Slice:
		th.check(p.Cmp(OpUlt, idx, x.ln), "runtime error: index out of range")
		addr := p.Bin(OpAdd, x.off, idx)
		if x.arr != nil {
			return &ArrPtr{x.arr, addr}
		}
		k := e.path.Concretize(addr, "slice element address")
		if k >= uint64(len(x.data)) {
			panic(fmt.Sprintf("engine: element address %d beyond object size %d at %s", k, len(x.data), e.pos(instr.Pos())))
		}
		return &x.data[k]
	}
	panic(fmt.Sprintf("indexAddr on %T", x))
}

func (th *Thread) slice(instr *ssa.Slice, x Value, lo, hi, max Value) Value {
	e := th.eng
	p := e.pool
	toT := func(v Value, src ssa.Value) *Term {
		if v == nil {
			return nil
		}
		return th.toInt64(v.(*Term), src.Type())
	}
	l, h, m := toT(lo, instr.Low), toT(hi, instr.High), toT(max, instr.Max)
	if l == nil {
		l = p.BV(0, 64)
	}
	switch x := x.(type) {
	case Str:
		n := p.BV(uint64(x.Len()), 64)
		if h == nil {
			h = n
		}
		th.check(p.Cmp(OpUle, h, n), "runtime error: slice bounds out of range")
		th.check(p.Cmp(OpUle, l, h), "runtime error: slice bounds out of range")
		lk := e.path.Concretize(l, "string slice lo")
		hk := e.path.Concretize(h, "string slice hi")
		if x.sym != nil {
			return mkStr(p, x.sym[lk:hk])
		}
		return Str{s: x.s[lk:hk]}
	case *Value: // *array
		if x == nil {
			th.goPanic("runtime error: invalid memory address or nil pointer dereference")
		}
		a := (*x).(Array)
		n := p.BV(uint64(len(a)), 64)
		if h == nil {
			h = n
		}
		if m == nil {
			m = n
		}
		th.check(p.Cmp(OpUle, m, n), "runtime error: slice bounds out of range")
		th.check(p.Cmp(OpUle, h, m), "runtime error: slice bounds out of range")
		th.check(p.Cmp(OpUle, l, h), "runtime error: slice bounds out of range")
		return Slice{data: []Value(a), off: l, ln: p.Bin(OpSub, h, l), cp: p.Bin(OpSub, m, l)}
	case Slice:
		if h == nil {
			h = x.ln
		}
		if m == nil {
			m = x.cp
		}
		th.check(p.Cmp(OpUle, m, x.cp), "runtime error: slice bounds out of range")
		th.check(p.Cmp(OpUle, h, m), "runtime error: slice bounds out of range")
		th.check(p.Cmp(OpUle, l, h), "runtime error: slice bounds out of range")
		if x.isNil() {
			return x
		}
		return Slice{data: x.data, arr: x.arr, off: p.Bin(OpAdd, x.off, l), ln: p.Bin(OpSub, h, l), cp: p.Bin(OpSub, m, l)}
	}
	panic(fmt.Sprintf("slice on %T", x))
}

// ---------------------------------------------------------------------------
// maps

func (th *Thread) mapFind(m *Map, k Value) int {
	e := th.eng
	e.access(th, &m.cell, false)
	for i, ent := range m.ents {
		eq := e.equals(m.kt, ent.k, k)
		if e.path.Branch(eq) {
			return i
		}
	}
	return -1
}

func (th *Thread) mapInsert(m *Map, k, v Value) {
	th.eng.access(th, &m.cell, true)
	if i := th.mapFind(m, k); i >= 0 {
		m.ents[i].v = v
		return
	}
	m.ents = append(m.ents, &mapEnt{k, v})
}

func (th *Thread) mapDelete(m *Map, k Value) {
	if m == nil {
		return
	}
	th.eng.access(th, &m.cell, true)
	if i := th.mapFind(m, k); i >= 0 {
		m.ents = append(m.ents[:i:i], m.ents[i+1:]...)
	}
}

func (th *Thread) lookup(instr *ssa.Lookup, x, idx Value) Value {
	e := th.eng
	p := e.pool
	switch x := x.(type) {
	case *Map:
		var v Value
		ok := false
		if x != nil {
			if i := th.mapFind(x, idx); i >= 0 {
				v, ok = copyVal(x.ents[i].v), true
			}
		}
		if !ok {
			v = e.zero(instr.X.Type().Underlying().(*types.Map).Elem())
		}
		if instr.CommaOk {
			return Tuple{v, p.Bool(ok)}
		}
		return v
	case Str:
		k := th.boundsIndex(idx.(*Term), instr.Index.Type(), p.BV(uint64(x.Len()), 64))
		return x.At(p, int(k))
	}
	panic(fmt.Sprintf("lookup on %T", x))
}

func (th *Thread) rangeIter(x Value, t types.Type) Value {
	switch x := x.(type) {
	case *Map:
		it := &mapIter{m: x}
		if x != nil {
			th.eng.access(th, &x.cell, false)
			it.ents = append(it.ents, x.ents...)
			if th.eng.w.cfg.ReverseMaps {
				for i, j := 0, len(it.ents)-1; i < j; i, j = i+1, j-1 {
					it.ents[i], it.ents[j] = it.ents[j], it.ents[i]
				}
			}
		}
		return it
	case Str:
		return &strIter{s: x}
	}
	panic(fmt.Sprintf("range over %T", x))
}

func (th *Thread) next(it Value, instr *ssa.Next) Value {
	e := th.eng
	p := e.pool
	switch it := it.(type) {
	case *mapIter:
		for it.i < len(it.ents) {
			ent := it.ents[it.i]
			it.i++
			// skip entries deleted during iteration
			live := false
			for _, x := range it.m.ents {
				if x == ent {
					live = true
					break
				}
			}
			if live {
				return Tuple{p.True, ent.k, copyVal(ent.v)}
			}
		}
		return Tuple{p.False, nil, nil}
	case *strIter:
		if it.i >= it.s.Len() {
			return Tuple{p.False, p.BV(0, 64), p.BV(0, 32)}
		}
		b := it.s.At(p, it.i)
		if !b.IsConst() || b.Val >= 0x80 {
			// only ASCII strings are ranged over by rune in the code under test
			if !b.IsConst() {
				th.eng.path.Assume(p.Cmp(OpUlt, b, p.BV(0x80, 8)))
				e.note("assumed ASCII in string range")
			} else {
				panic(inconclusive{"non-ASCII rune iteration"})
			}
		}
		i := it.i
		it.i++
		return Tuple{p.True, p.BV(uint64(i), 64), p.ZExt(b, 32)}
	}
	panic(fmt.Sprintf("next on %T", it))
}

// ---------------------------------------------------------------------------

func (th *Thread) typeAssert(instr *ssa.TypeAssert, itf Iface) Value {
	e := th.eng
	p := e.pool
	var v Value
	ok := false
	if idst, isI := instr.AssertedType.Underlying().(*types.Interface); isI {
		if itf.t != nil && types.Implements(itf.t, idst) {
			v, ok = itf, true
		} else if itf.t != nil {
			// pointer receiver method sets
			if ms := e.w.prog.MethodSets.MethodSet(itf.t); implementsMS(ms, idst) {
				v, ok = itf, true
			}
		}
	} else if itf.t != nil && types.Identical(itf.t, instr.AssertedType) {
		v, ok = copyVal(itf.v), true
	}
	if !ok {
		if !instr.CommaOk {
			th.goPanic(fmt.Sprintf("interface conversion: interface is %v, not %v", itf.t, instr.AssertedType))
		}
		v = e.zero(instr.AssertedType)
	}
	if instr.CommaOk {
		return Tuple{v, p.Bool(ok)}
	}
	return v
}

func implementsMS(ms *types.MethodSet, it *types.Interface) bool {
	for i := 0; i < it.NumMethods(); i++ {
		m := it.Method(i)
		sel := ms.Lookup(m.Pkg(), m.Name())
		if sel == nil || !types.Identical(sel.Type(), m.Type()) {
			return false
		}
	}
	return true
}

func (e *Engine) pos(p token.Pos) string {
	if p == token.NoPos {
		return "?"
	}
	ps := e.w.prog.Fset.Position(p)
	return fmt.Sprintf("%s:%d", ps.Filename, ps.Line)
}

// visibleCaller: is the calling function part of the repo code that the native
// replay instruments (a non-harness file of the module)?
func (e *Engine) visibleCaller(caller *frame) bool {
	if caller == nil || caller.fn == nil {
		return false
	}
	fn := caller.fn
	for fn.Parent() != nil {
		fn = fn.Parent()
	}
	if fn.Pkg == nil || fn.Pkg != e.w.pr.harnessPkg {
		return false // only the package under test is instrumented for native replays
	}
	pos := caller.fn.Pos()
	if pos == token.NoPos {
		return false
	}
	f := e.w.prog.Fset.Position(pos).Filename
	return !strings.Contains(f, "zz_verif_")
}
