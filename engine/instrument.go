package main

// gosmt instrument: writes instrumented copies of a package's non-test source
// files in which vrtPoint() is called before every statement that performs a
// lock / condition-variable / wait-group / atomic operation - the places the
// engine treats as (visible) scheduling points. Used only for native replay of
// scheduled counterexamples (go test -overlay); nothing is written to /repo.

import (
	"bytes"
	"encoding/json"
	"flag"
	"fmt"
	"go/ast"
	"go/printer"
	"go/token"
	"go/types"
	"os"
	"path/filepath"
	"strings"

	"golang.org/x/tools/go/packages"
)

func isSyncCall(info *types.Info, call *ast.CallExpr) bool {
	var obj types.Object
	switch f := call.Fun.(type) {
	case *ast.SelectorExpr:
		if sel := info.Selections[f]; sel != nil {
			obj = sel.Obj()
		} else {
			obj = info.Uses[f.Sel]
		}
	case *ast.Ident:
		obj = info.Uses[f]
	}
	fn, ok := obj.(*types.Func)
	if !ok || fn.Pkg() == nil {
		return false
	}
	switch fn.Pkg().Path() {
	case "sync/atomic":
		return true
	case "sync":
		sig := fn.Type().(*types.Signature)
		if sig.Recv() == nil {
			return false // sync.NewCond etc.
		}
		switch fn.Name() {
		case "Lock", "Unlock", "RLock", "RUnlock", "Wait", "Broadcast", "Signal", "Add", "Done":
			return true
		}
	}
	return false
}

type instrumenter struct {
	info  *types.Info
	fset  *token.FileSet
	count int
	warn  []string
}

func pointStmt() ast.Stmt {
	return &ast.ExprStmt{X: &ast.CallExpr{Fun: ast.NewIdent("vrtPoint")}}
}

// syncCallsIn counts sync calls directly inside n (not inside nested function literals or nested blocks).
func (in *instrumenter) syncCallsIn(n ast.Node) int {
	c := 0
	ast.Inspect(n, func(x ast.Node) bool {
		switch x := x.(type) {
		case *ast.FuncLit, *ast.BlockStmt:
			if x != n {
				return false
			}
		case *ast.CallExpr:
			if isSyncCall(in.info, x) {
				c++
			}
		}
		return true
	})
	return c
}

// headerOf returns the parts of a statement evaluated when the statement starts.
func headerOf(s ast.Stmt) []ast.Node {
	switch s := s.(type) {
	case *ast.IfStmt:
		var h []ast.Node
		if s.Init != nil {
			h = append(h, s.Init)
		}
		return append(h, s.Cond)
	case *ast.SwitchStmt:
		var h []ast.Node
		if s.Init != nil {
			h = append(h, s.Init)
		}
		if s.Tag != nil {
			h = append(h, s.Tag)
		}
		return h
	case *ast.ForStmt:
		var h []ast.Node
		if s.Init != nil {
			h = append(h, s.Init)
		}
		return h
	case *ast.BlockStmt, *ast.TypeSwitchStmt, *ast.SelectStmt, *ast.RangeStmt, *ast.LabeledStmt, *ast.CaseClause, *ast.CommClause:
		return nil
	}
	return []ast.Node{s}
}

func (in *instrumenter) rewriteList(list []ast.Stmt) []ast.Stmt {
	var out []ast.Stmt
	for _, s := range list {
		if d, ok := s.(*ast.DeferStmt); ok && isSyncCall(in.info, d.Call) {
			// defer x.Unlock()  ->  defer func() { vrtPoint(); x.Unlock() }()
			body := &ast.BlockStmt{List: []ast.Stmt{pointStmt(), &ast.ExprStmt{X: d.Call}}}
			out = append(out, &ast.DeferStmt{Call: &ast.CallExpr{Fun: &ast.FuncLit{Type: &ast.FuncType{Params: &ast.FieldList{}}, Body: body}}})
			in.count++
			continue
		}
		if g, ok := s.(*ast.GoStmt); ok {
			// go f(x)  ->  vrtGo(func() { f(x) }): the new goroutine gets a logical thread id
			body := &ast.BlockStmt{List: []ast.Stmt{&ast.ExprStmt{X: g.Call}}}
			out = append(out, &ast.ExprStmt{X: &ast.CallExpr{Fun: ast.NewIdent("vrtGoLib"), Args: []ast.Expr{&ast.FuncLit{Type: &ast.FuncType{Params: &ast.FieldList{}}, Body: body}}}})
			in.count++
			continue
		}
		n := 0
		for _, h := range headerOf(s) {
			n += in.syncCallsIn(h)
		}
		if f, ok := s.(*ast.ForStmt); ok {
			if (f.Cond != nil && in.syncCallsIn(f.Cond) > 0) || (f.Post != nil && in.syncCallsIn(f.Post) > 0) {
				in.warn = append(in.warn, fmt.Sprintf("%s: sync call in for-loop condition/post is not instrumented", in.fset.Position(s.Pos())))
			}
		}
		if n > 1 {
			in.warn = append(in.warn, fmt.Sprintf("%s: %d sync calls in one statement", in.fset.Position(s.Pos()), n))
		}
		for i := 0; i < n; i++ {
			out = append(out, pointStmt())
			in.count++
		}
		out = append(out, s)
	}
	return out
}

func (in *instrumenter) walk(n ast.Node) {
	ast.Inspect(n, func(x ast.Node) bool {
		switch x := x.(type) {
		case *ast.BlockStmt:
			x.List = in.rewriteList(x.List)
		case *ast.CaseClause:
			x.Body = in.rewriteList(x.Body)
		case *ast.CommClause:
			x.Body = in.rewriteList(x.Body)
		}
		return true
	})
}

func instrumentMain(args []string) {
	fs := flag.NewFlagSet("instrument", flag.ExitOnError)
	repo := fs.String("repo", "/repo", "repository root")
	pkg := fs.String("pkg", "service", "package directory")
	outdir := fs.String("out", "", "output directory")
	fs.Parse(args)
	cfg := &packages.Config{
		Mode: packages.NeedName | packages.NeedFiles | packages.NeedCompiledGoFiles | packages.NeedSyntax | packages.NeedTypes | packages.NeedTypesInfo | packages.NeedImports | packages.NeedDeps,
		Dir:  *repo,
		Env:  append(os.Environ(), "GOFLAGS=-mod=mod", "GOPROXY=off", "GOSUMDB=off", "GOTOOLCHAIN=local"),
	}
	pkgs, err := packages.Load(cfg, "./"+*pkg)
	if err != nil || len(pkgs) != 1 {
		fmt.Fprintln(os.Stderr, "instrument: load failed", err, len(pkgs))
		os.Exit(2)
	}
	if len(pkgs[0].Errors) > 0 {
		fmt.Fprintln(os.Stderr, "instrument: load errors", pkgs[0].Errors)
		os.Exit(2)
	}
	p := pkgs[0]
	res := map[string]string{}
	var warns []string
	total := 0
	for i, f := range p.Syntax {
		name := p.CompiledGoFiles[i]
		if strings.HasSuffix(name, "_test.go") {
			continue
		}
		in := &instrumenter{info: p.TypesInfo, fset: p.Fset}
		for _, d := range f.Decls {
			if fd, ok := d.(*ast.FuncDecl); ok && fd.Body != nil {
				in.walk(fd.Body)
			}
		}
		warns = append(warns, in.warn...)
		if in.count == 0 {
			continue
		}
		total += in.count
		// keep only the comments in front of the package clause (build constraints)
		var keep []*ast.CommentGroup
		for _, cg := range f.Comments {
			if cg.End() < f.Package {
				keep = append(keep, cg)
			}
		}
		f.Comments = keep
		var buf bytes.Buffer
		if err := printer.Fprint(&buf, p.Fset, f); err != nil {
			fmt.Fprintln(os.Stderr, "instrument: print failed", err)
			os.Exit(2)
		}
		dst := filepath.Join(*outdir, "instr_"+filepath.Base(name))
		os.WriteFile(dst, buf.Bytes(), 0o644)
		res[name] = dst
	}
	b, _ := json.Marshal(map[string]any{"files": res, "points": total, "warnings": warns})
	fmt.Println(string(b))
}
