package main

// Happens-before race detection over interpreter memory cells (vector
// clocks; FastTrack-like shadow state per cell). Only active with cfg.Race.

import (
	"fmt"
	"go/token"
	"strings"
)

type shadow struct {
	wT    int // last writer thread (-1 none)
	wC    int
	wPos  token.Pos
	wFn   string
	wAtom bool
	rAtom map[int]bool
	reads map[int]int // thread -> clock of last read
	rPos  map[int]token.Pos
	rFn   map[int]string
}

type raceState struct {
	cells  map[*Value]*shadow
	races  map[string]bool
	atomic bool // current access is an atomic intrinsic
	atoms  map[*Value]*[]int
}

func newRaceState() *raceState {
	return &raceState{cells: map[*Value]*shadow{}, races: map[string]bool{}}
}

func vcGet(vc []int, i int) int {
	if i < len(vc) {
		return vc[i]
	}
	return 0
}

func vcJoin(dst *[]int, src []int) {
	for len(*dst) < len(src) {
		*dst = append(*dst, 0)
	}
	for i, v := range src {
		if v > (*dst)[i] {
			(*dst)[i] = v
		}
	}
}

func (th *Thread) tick() {
	for len(th.vc) <= th.id {
		th.vc = append(th.vc, 0)
	}
	th.vc[th.id]++
}

func (r *raceState) fork(parent, child *Thread) {
	if parent != nil {
		if len(parent.vc) <= parent.id {
			parent.tick()
		}
		vcJoin(&child.vc, parent.vc)
		parent.tick() // what the parent does from now on is not ordered before the child
	}
	child.tick()
}

func (r *raceState) exit(t *Thread) {}

func (r *raceState) acquire(t *Thread, vc *[]int) {
	vcJoin(&t.vc, *vc)
}

func (r *raceState) release(t *Thread, vc *[]int) {
	if len(t.vc) <= t.id {
		t.tick()
	}
	*vc = append((*vc)[:0], t.vc...)
	t.tick() // later events of t are not covered by this release
}

// releaseJoin: release that accumulates (read-unlock, atomics, several releasers).
func (r *raceState) releaseJoin(t *Thread, vc *[]int) {
	if len(t.vc) <= t.id {
		t.tick()
	}
	vcJoin(vc, t.vc)
	t.tick()
}

// access is called for every load/store of a memory cell. A cell that holds a
// struct or an array is accessed as a whole: its fields / elements, which have
// cells (addresses) of their own, are accessed with it.
func (e *Engine) access(th *Thread, addr *Value, write bool) {
	r := e.race
	if r == nil {
		return
	}
	switch v := (*addr).(type) {
	case Struct:
		for i := range v {
			e.access(th, &v[i], write)
		}
	case Array:
		for i := range v {
			e.access(th, &v[i], write)
		}
	}
	e.access1(th, addr, write)
}

func (e *Engine) access1(th *Thread, addr *Value, write bool) {
	r := e.race
	atom := r.atomic // an atomic operation conflicts with plain accesses only
	if len(e.threads) == 1 {
		return // nothing concurrent has ever existed; fork copies the clock
	}
	s := r.cells[addr]
	if s == nil {
		s = &shadow{wT: -1}
		r.cells[addr] = s
	}
	if len(th.vc) <= th.id {
		th.tick()
	}
	fname := func(t *Thread) string {
		if t.curFn == nil {
			return "?"
		}
		return t.curFn.Name()
	}
	inHarness := func(p token.Pos) bool {
		return p == token.NoPos || strings.Contains(e.w.prog.Fset.Position(p).Filename, "zz_verif_")
	}
	report := func(kind string, opos token.Pos, ot int, ofn string) {
		if inHarness(th.pos) || inHarness(opos) {
			return // the harness's own bookkeeping is not the subject
		}
		key := fmt.Sprintf("%s in %s %s (thread %d) vs in %s %s (thread %d)", kind, fname(th), e.pos(th.pos), th.id, ofn, e.pos(opos), ot)
		if !r.races[key] {
			r.races[key] = true
			e.event("race", key)
		}
	}
	// write-write / write-read conflicts with last write
	if s.wT >= 0 && s.wT != th.id && s.wC > vcGet(th.vc, s.wT) && !(atom && s.wAtom) {
		if write {
			report("write-after-write", s.wPos, s.wT, s.wFn)
		} else {
			report("read-after-write", s.wPos, s.wT, s.wFn)
		}
	}
	if write {
		for t, c := range s.reads {
			if t != th.id && c > vcGet(th.vc, t) && !(atom && s.rAtom[t]) {
				report("write-after-read", s.rPos[t], t, s.rFn[t])
			}
		}
		s.wT, s.wC, s.wPos, s.wFn, s.wAtom = th.id, th.vc[th.id], th.pos, fname(th), atom
		s.reads = nil
		s.rPos = nil
		s.rFn = nil
		s.rAtom = nil
	} else {
		if s.reads == nil {
			s.reads = map[int]int{}
			s.rPos = map[int]token.Pos{}
			s.rFn = map[int]string{}
			s.rAtom = map[int]bool{}
		}
		s.rAtom[th.id] = atom
		s.reads[th.id] = th.vc[th.id]
		s.rPos[th.id] = th.pos
		s.rFn[th.id] = fname(th)
	}
}
