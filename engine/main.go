package main

// gosmt: symbolic execution of Go harnesses over the current /repo tree.
//
//	gosmt run -repo /repo -pkg message -harnessdir /verif/harness/message \
//	      -rt /verif/harness/rt/zz_verif_rt.go -run 'H04_.*' -out res.json [bounds...]

import (
	"encoding/json"
	"flag"
	"fmt"
	"os"
	"path/filepath"
	"regexp"
	"runtime/debug"
	"runtime/pprof"
	"sort"
	"strings"
	"time"

	"golang.org/x/tools/go/packages"
	"golang.org/x/tools/go/ssa"
	"golang.org/x/tools/go/ssa/ssautil"
)

const modPath = "github.com/mdzio/go-mqtt"

func loadProgram(repo, pkgdir string, overlay map[string][]byte) (*Program, *ssa.Package, error) {
	cfg := &packages.Config{
		Mode:       packages.LoadAllSyntax,
		Dir:        repo,
		BuildFlags: []string{"-tags=verif"},
		Overlay:    overlay,
		Env:        append(os.Environ(), "GOFLAGS=-mod=mod", "GOPROXY=off", "GOSUMDB=off", "GOTOOLCHAIN=local"),
	}
	pkgs, err := packages.Load(cfg, "./"+pkgdir)
	if err != nil {
		return nil, nil, err
	}
	var errs []string
	packages.Visit(pkgs, nil, func(p *packages.Package) {
		for _, e := range p.Errors {
			errs = append(errs, e.Error())
		}
	})
	if len(errs) > 0 {
		return nil, nil, fmt.Errorf("load errors:\n%s", strings.Join(errs, "\n"))
	}
	prog, spkgs := ssautil.AllPackages(pkgs, ssa.InstantiateGenerics)
	pr := &Program{prog: prog, pkgs: map[string]*ssa.Package{}, built: map[*ssa.Package]bool{}}
	for _, p := range prog.AllPackages() {
		pr.pkgs[p.Pkg.Path()] = p
	}
	// build repo packages and the few library packages whose init we run
	for path, p := range pr.pkgs {
		if pr.isRepo(path) || path == "io" || path == "bufio" || path == "errors" || path == "encoding/binary" || path == "bytes" {
			p.Build()
			pr.built[p] = true
		}
	}
	for _, path := range []string{"io", "bufio", modPath + "/auth", modPath + "/message", modPath + "/topics", modPath + "/sessions", modPath + "/service"} {
		if p, ok := pr.pkgs[path]; ok {
			pr.initPkgs = append(pr.initPkgs, p)
		}
	}
	if len(spkgs) != 1 || spkgs[0] == nil {
		return nil, nil, fmt.Errorf("expected one initial package")
	}
	pr.harnessPkg = spkgs[0]
	return pr, spkgs[0], nil
}

type RunOutput struct {
	Pkg       string           `json:"pkg"`
	LoadSec   float64          `json:"load_seconds"`
	Config    map[string]any   `json:"config"`
	Harnesses []*HarnessResult `json:"harnesses"`
	Vectors   []Vector         `json:"vectors"`
	Stubs     []string         `json:"stubs"`
}

func main() {
	if len(os.Args) >= 2 && os.Args[1] == "instrument" {
		instrumentMain(os.Args[2:])
		return
	}
	if len(os.Args) >= 2 && os.Args[1] == "prune" {
		pruneMain(os.Args[2:])
		return
	}
	if len(os.Args) < 2 || os.Args[1] != "run" {
		fmt.Fprintln(os.Stderr, "usage: gosmt run [flags]")
		os.Exit(2)
	}
	fs := flag.NewFlagSet("run", flag.ExitOnError)
	repo := fs.String("repo", "/repo", "repository root")
	pkg := fs.String("pkg", "message", "package directory under the repo")
	hdir := fs.String("harnessdir", "", "directory with harness .go files to overlay into the package")
	extra := fs.String("extra", "", "comma-separated extra files to overlay into the package (rt, spec)")
	runRe := fs.String("run", ".*", "regexp selecting harness functions (names start with H)")
	out := fs.String("out", "", "result JSON file")
	unwind := fs.Int("unwind", 64, "loop unwinding limit")
	maxSteps := fs.Int64("maxsteps", 5_000_000, "SSA instruction limit per path")
	ceiling := fs.Int64("ceiling", 1<<28, "allocation ceiling (elements)")
	workers := fs.Int("workers", 16, "parallel workers")
	qt := fs.Int("qtimeout", 10000, "solver timeout per query (ms)")
	sched := fs.String("sched", "canonical", "canonical | explore")
	schedRev := fs.Bool("schedrev", false, "rotate through the threads in descending order")
	preempt := fs.Int("preempt", 2, "preemption bound (explore)")
	maxPaths := fs.Int("maxpaths", 0, "path limit per harness (0 = none)")
	maxConcr := fs.Int("maxconcr", 1024, "max values per concretisation")
	revMaps := fs.Bool("revmaps", false, "iterate maps in reverse insertion order")
	race := fs.Bool("race", false, "happens-before race detection")
	verbose := fs.Bool("v", false, "verbose")
	timeLimit := fs.Int("timelimit", 0, "seconds per harness (0 = none)")
	boundsFlag := fs.String("bounds", "", "harness bounds name=value,... (vrtBound)")
	cpuprof := fs.String("cpuprofile", "", "write a CPU profile")
	dumpDir := fs.String("dumpobl", "", "directory for sampled obligation scripts (cross-solver comparison)")
	dumpEvery := fs.Int("dumpevery", 10, "dump every n-th obligation per worker")
	dumpMax := fs.Int("dumpmax", 12, "at most this many scripts per worker and harness")
	fs.Parse(os.Args[2:])

	debug.SetGCPercent(800) // paths allocate large short-lived heaps (ring buffers as cell arrays)
	if *cpuprof != "" {
		f, _ := os.Create(*cpuprof)
		pprof.StartCPUProfile(f)
		defer pprof.StopCPUProfile()
	}
	overlay := map[string][]byte{}
	addFile := func(f string) {
		b, err := os.ReadFile(f)
		if err != nil {
			fmt.Fprintln(os.Stderr, "gosmt:", err)
			os.Exit(2)
		}
		b = []byte(strings.ReplaceAll(string(b), "package PKGNAME", "package "+filepath.Base(*pkg)))
		overlay[filepath.Join(*repo, *pkg, "zz_verif_"+filepath.Base(f))] = b
	}
	if *hdir != "" {
		fl, _ := filepath.Glob(filepath.Join(*hdir, "*.go"))
		for _, f := range fl {
			if !strings.HasSuffix(f, "_test.go") {
				addFile(f)
			}
		}
	}
	for _, f := range strings.Split(*extra, ",") {
		if f != "" {
			addFile(f)
		}
	}
	t0 := time.Now()
	pr, spkg, err := loadProgram(*repo, *pkg, overlay)
	if err != nil {
		fmt.Fprintln(os.Stderr, "gosmt: load failed:", err)
		os.Exit(2)
	}
	loadSec := time.Since(t0).Seconds()
	re := regexp.MustCompile("^(" + *runRe + ")$")
	var hs []*ssa.Function
	for name, m := range spkg.Members {
		f, ok := m.(*ssa.Function)
		if ok && strings.HasPrefix(name, "H") && len(name) > 2 && name[1] >= '0' && name[1] <= '9' && re.MatchString(name) {
			hs = append(hs, f)
		}
	}
	sort.Slice(hs, func(i, j int) bool { return hs[i].Name() < hs[j].Name() })
	if len(hs) == 0 {
		fmt.Fprintln(os.Stderr, "gosmt: no harness matches", *runRe)
		os.Exit(2)
	}
	cfg := &Config{Unwind: *unwind, MaxSteps: *maxSteps, AllocCeiling: *ceiling, Workers: *workers, QueryTimeout: *qt,
		Sched: *sched, SchedRev: *schedRev, Preempt: *preempt, MaxPaths: *maxPaths, MaxConcr: *maxConcr, ReverseMaps: *revMaps, Race: *race, Verbose: *verbose}
	ro := &RunOutput{Pkg: *pkg, LoadSec: loadSec, Config: map[string]any{
		"unwind": *unwind, "maxsteps": *maxSteps, "alloc_ceiling": *ceiling, "workers": *workers, "query_timeout_ms": *qt,
		"sched": *sched, "schedrev": *schedRev, "preempt": *preempt, "maxpaths": *maxPaths, "maxconcr": *maxConcr, "reverse_maps": *revMaps, "race": *race}}
	cfg.DumpDir, cfg.DumpEvery, cfg.DumpMax = *dumpDir, *dumpEvery, *dumpMax
	cfg.Bounds = map[string]int64{}
	for _, kv := range strings.Split(*boundsFlag, ",") {
		if kv == "" {
			continue
		}
		var k string
		var v int64
		parts := strings.SplitN(kv, "=", 2)
		k = parts[0]
		fmt.Sscan(parts[1], &v)
		cfg.Bounds[k] = v
	}
	ro.Config["bounds"] = cfg.Bounds
	for _, h := range hs {
		c := *cfg
		if *timeLimit > 0 {
			c.Deadline = time.Now().Add(time.Duration(*timeLimit) * time.Second)
		}
		hr := explore(pr, &c, h)
		ro.Harnesses = append(ro.Harnesses, hr)
		ro.Vectors = append(ro.Vectors, hr.Vectors...)
		fmt.Fprintf(os.Stderr, "%-28s paths=%d ok=%d aborted=%d oblig=%d/%d viol=%d inconcl=%d queries=%d solver=%.1fs wall=%.1fs\n",
			hr.Harness, hr.Paths, hr.PathsOK, hr.Aborted, hr.Discharged, hr.Obligations, len(hr.Violations), len(hr.Inconclusive), hr.Queries, hr.SolverSec, hr.WallSec)
		if *verbose {
			for _, s := range hr.Inconclusive {
				fmt.Fprintln(os.Stderr, "   inconclusive:", s)
			}
			for _, v := range hr.Violations {
				fmt.Fprintf(os.Stderr, "   violation: %s %s %s\n", v.Kind, v.Name, v.Detail)
			}
		}
	}
	for name := range intrinsics {
		ro.Stubs = append(ro.Stubs, name)
	}
	sort.Strings(ro.Stubs)
	b, _ := json.MarshalIndent(ro, "", " ")
	if *out != "" {
		os.WriteFile(*out, b, 0o644)
	} else {
		os.Stdout.Write(b)
	}
}
