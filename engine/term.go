package main

// Hash-consed SMT term DAG with constant folding, evaluation under a model
// and SMT-LIB2 printing. Sorts: Bool (W==0), bit-vectors (W in 1..64),
// byte arrays (W==-1: (Array (_ BitVec 64) (_ BitVec 8))).

import (
	"fmt"
	"strings"
)

type Op uint8

const (
	OpConst Op = iota // BV const (Val) or Bool const (Val 0/1)
	OpVar             // named variable (Name), any sort
	OpAdd
	OpSub
	OpMul
	OpUDiv
	OpSDiv
	OpURem
	OpSRem
	OpAnd
	OpOr
	OpXor
	OpShl
	OpLShr
	OpAShr
	OpNot // bitwise
	OpNeg
	OpConcat
	OpExtract // Hi, Lo
	OpZExt    // to W
	OpSExt    // to W
	OpIte
	OpEq
	OpUlt
	OpUle
	OpSlt
	OpSle
	OpBNot
	OpBAnd
	OpBOr
	OpSelect   // (select arr idx) -> BV8
	OpStore    // (store arr idx val) -> Array
	OpConstArr // ((as const (Array ..)) val)
)

const ArrW = -1

type Term struct {
	Op     Op
	W      int // 0 bool, >0 bitvector width, -1 array
	Val    uint64
	Name   string
	Args   []*Term
	Hi, Lo int
	id     int
}

type termKey struct {
	op         Op
	w          int
	val        uint64
	name       string
	a0, a1, a2 int
	hi, lo     int
}

type Pool struct {
	tab    map[termKey]*Term
	nextID int
	True   *Term
	False  *Term
}

func NewPool() *Pool {
	p := &Pool{tab: map[termKey]*Term{}}
	p.True = p.mk(&Term{Op: OpConst, W: 0, Val: 1})
	p.False = p.mk(&Term{Op: OpConst, W: 0, Val: 0})
	return p
}

func (p *Pool) mk(t *Term) *Term {
	k := termKey{op: t.Op, w: t.W, val: t.Val, name: t.Name, hi: t.Hi, lo: t.Lo, a0: -1, a1: -1, a2: -1}
	if len(t.Args) > 0 {
		k.a0 = t.Args[0].id
	}
	if len(t.Args) > 1 {
		k.a1 = t.Args[1].id
	}
	if len(t.Args) > 2 {
		k.a2 = t.Args[2].id
	}
	if e, ok := p.tab[k]; ok {
		return e
	}
	t.id = p.nextID
	p.nextID++
	p.tab[k] = t
	return t
}

func mask(w int) uint64 {
	if w >= 64 {
		return ^uint64(0)
	}
	return (uint64(1) << uint(w)) - 1
}

func sext64(v uint64, w int) int64 {
	if w >= 64 {
		return int64(v)
	}
	sh := uint(64 - w)
	return int64(v<<sh) >> sh
}

func (t *Term) IsConst() bool { return t.Op == OpConst }
func (t *Term) IsTrue() bool  { return t.Op == OpConst && t.W == 0 && t.Val == 1 }
func (t *Term) IsFalse() bool { return t.Op == OpConst && t.W == 0 && t.Val == 0 }

func (p *Pool) BV(v uint64, w int) *Term {
	return p.mk(&Term{Op: OpConst, W: w, Val: v & mask(w)})
}
func (p *Pool) Bool(b bool) *Term {
	if b {
		return p.True
	}
	return p.False
}
func (p *Pool) Var(name string, w int) *Term {
	return p.mk(&Term{Op: OpVar, W: w, Name: name})
}

func evalBin(op Op, w int, a, b uint64) uint64 {
	m := mask(w)
	switch op {
	case OpAdd:
		return (a + b) & m
	case OpSub:
		return (a - b) & m
	case OpMul:
		return (a * b) & m
	case OpUDiv:
		if b == 0 {
			return m
		}
		return (a / b) & m
	case OpURem:
		if b == 0 {
			return a
		}
		return (a % b) & m
	case OpSDiv:
		sa, sb := sext64(a, w), sext64(b, w)
		if sb == 0 {
			if sa < 0 {
				return 1
			}
			return m
		}
		if sb == -1 {
			return uint64(-sa) & m
		}
		return uint64(sa/sb) & m
	case OpSRem:
		sa, sb := sext64(a, w), sext64(b, w)
		if sb == 0 {
			return a
		}
		if sb == -1 {
			return 0
		}
		return uint64(sa%sb) & m
	case OpAnd:
		return a & b
	case OpOr:
		return a | b
	case OpXor:
		return a ^ b
	case OpShl:
		if b >= uint64(w) {
			return 0
		}
		return (a << b) & m
	case OpLShr:
		if b >= uint64(w) {
			return 0
		}
		return (a >> b) & m
	case OpAShr:
		sa := sext64(a, w)
		if b >= uint64(w) {
			if sa < 0 {
				return m
			}
			return 0
		}
		return uint64(sa>>b) & m
	}
	panic("evalBin")
}

func evalCmp(op Op, w int, a, b uint64) bool {
	switch op {
	case OpEq:
		return a == b
	case OpUlt:
		return a < b
	case OpUle:
		return a <= b
	case OpSlt:
		return sext64(a, w) < sext64(b, w)
	case OpSle:
		return sext64(a, w) <= sext64(b, w)
	}
	panic("evalCmp")
}

// Bin builds a binary bit-vector operation with folding.
func (p *Pool) Bin(op Op, a, b *Term) *Term {
	if a.W != b.W || a.W <= 0 {
		panic(fmt.Sprintf("Bin %d: width mismatch %d %d", op, a.W, b.W))
	}
	w := a.W
	if a.IsConst() && b.IsConst() {
		return p.BV(evalBin(op, w, a.Val, b.Val), w)
	}
	switch op {
	case OpAdd:
		if a.IsConst() && a.Val == 0 {
			return b
		}
		if b.IsConst() && b.Val == 0 {
			return a
		}
		// (x + c1) + c2 -> x + (c1+c2)
		if b.IsConst() && a.Op == OpAdd && a.Args[1].IsConst() {
			return p.Bin(OpAdd, a.Args[0], p.BV(a.Args[1].Val+b.Val, w))
		}
		if a.IsConst() {
			return p.Bin(OpAdd, b, a)
		}
		// (x - c1) + c2
		if b.IsConst() && a.Op == OpSub && a.Args[1].IsConst() {
			return p.Bin(OpAdd, a.Args[0], p.BV(b.Val-a.Args[1].Val, w))
		}
	case OpSub:
		if b.IsConst() && b.Val == 0 {
			return a
		}
		if a == b {
			return p.BV(0, w)
		}
		if b.IsConst() {
			return p.Bin(OpAdd, a, p.BV(-b.Val, w))
		}
		// (x + c) - x -> c ; (c + x) - x -> c
		if a.Op == OpAdd && a.Args[0] == b {
			return a.Args[1]
		}
		if a.Op == OpAdd && a.Args[1] == b {
			return a.Args[0]
		}
		// (x + c1) - (x + c2)
		if a.Op == OpAdd && b.Op == OpAdd && a.Args[0] == b.Args[0] && a.Args[1].IsConst() && b.Args[1].IsConst() {
			return p.BV(a.Args[1].Val-b.Args[1].Val, w)
		}
	case OpMul:
		if a.IsConst() {
			a, b = b, a
		}
		if b.IsConst() {
			if b.Val == 0 {
				return b
			}
			if b.Val == 1 {
				return a
			}
		}
	case OpAnd:
		if a.IsConst() {
			a, b = b, a
		}
		if b.IsConst() {
			if b.Val == 0 {
				return b
			}
			if b.Val == mask(w) {
				return a
			}
		}
		if a == b {
			return a
		}
	case OpOr:
		if a.IsConst() {
			a, b = b, a
		}
		if b.IsConst() {
			if b.Val == 0 {
				return a
			}
			if b.Val == mask(w) {
				return b
			}
		}
		if a == b {
			return a
		}
	case OpXor:
		if a.IsConst() {
			a, b = b, a
		}
		if b.IsConst() && b.Val == 0 {
			return a
		}
		if a == b {
			return p.BV(0, w)
		}
	case OpShl, OpLShr, OpAShr:
		if b.IsConst() && b.Val == 0 {
			return a
		}
		if a.IsConst() && a.Val == 0 {
			return a
		}
		if b.IsConst() && b.Val >= uint64(w) && op != OpAShr {
			return p.BV(0, w)
		}
		// (zext x) >> c with c >= width(x) -> 0
		if op == OpLShr && b.IsConst() && a.Op == OpZExt && b.Val >= uint64(a.Args[0].W) {
			return p.BV(0, w)
		}
	case OpUDiv, OpSDiv:
		if b.IsConst() && b.Val == 1 {
			return a
		}
	}
	return p.mk(&Term{Op: op, W: w, Args: []*Term{a, b}})
}

func (p *Pool) Not(a *Term) *Term {
	if a.IsConst() {
		return p.BV(^a.Val, a.W)
	}
	if a.Op == OpNot {
		return a.Args[0]
	}
	return p.mk(&Term{Op: OpNot, W: a.W, Args: []*Term{a}})
}

func (p *Pool) Neg(a *Term) *Term {
	if a.IsConst() {
		return p.BV(-a.Val, a.W)
	}
	return p.mk(&Term{Op: OpNeg, W: a.W, Args: []*Term{a}})
}

// range bound: returns an upper bound (inclusive) on the unsigned value of t, cheaply.
func (t *Term) umax() uint64 {
	switch t.Op {
	case OpConst:
		return t.Val
	case OpZExt:
		return t.Args[0].umax()
	case OpAnd:
		a, b := t.Args[0].umax(), t.Args[1].umax()
		if a < b {
			return a
		}
		return b
	case OpLShr:
		if t.Args[1].IsConst() && t.Args[1].Val < 64 {
			return t.Args[0].umax() >> t.Args[1].Val
		}
	case OpIte:
		a, b := t.Args[1].umax(), t.Args[2].umax()
		if a > b {
			return a
		}
		return b
	case OpExtract:
		if t.Lo == 0 {
			a := t.Args[0].umax()
			if a <= mask(t.W) {
				return a
			}
		}
	case OpAdd:
		a, b := t.Args[0].umax(), t.Args[1].umax()
		if s := a + b; s >= a && s <= mask(t.W) {
			return s
		}
	}
	return mask(t.W)
}

func (p *Pool) Cmp(op Op, a, b *Term) *Term {
	if a.W != b.W {
		panic(fmt.Sprintf("Cmp: width mismatch %d %d", a.W, b.W))
	}
	if a.W == 0 { // bool equality
		if op != OpEq {
			panic("Cmp on bool")
		}
		if a == b {
			return p.True
		}
		if a.IsConst() {
			a, b = b, a
		}
		if b.IsConst() {
			if b.Val == 1 {
				return a
			}
			return p.BNot(a)
		}
		return p.mk(&Term{Op: OpEq, W: 0, Args: []*Term{a, b}})
	}
	if a.IsConst() && b.IsConst() {
		return p.Bool(evalCmp(op, a.W, a.Val, b.Val))
	}
	if a == b {
		return p.Bool(op == OpEq || op == OpUle || op == OpSle)
	}
	switch op {
	case OpEq:
		if a.IsConst() {
			a, b = b, a
		}
		if b.IsConst() {
			if b.Val > a.umax() {
				return p.False
			}
			// zext(x) == c -> x == c'
			if a.Op == OpZExt {
				return p.Cmp(OpEq, a.Args[0], p.BV(b.Val, a.Args[0].W))
			}
			// ite(c, k1, k2) == k
			if a.Op == OpIte && a.Args[1].IsConst() && a.Args[2].IsConst() {
				t1 := a.Args[1].Val == b.Val
				t2 := a.Args[2].Val == b.Val
				switch {
				case t1 && t2:
					return p.True
				case t1:
					return a.Args[0]
				case t2:
					return p.BNot(a.Args[0])
				default:
					return p.False
				}
			}
		}
		if a.id > b.id && !b.IsConst() {
			a, b = b, a
		}
	case OpUlt:
		if b.IsConst() && b.Val == 0 {
			return p.False
		}
		if b.IsConst() && a.umax() < b.Val {
			return p.True
		}
		if a.IsConst() && a.Val >= b.umax() {
			return p.False
		}
	case OpUle:
		if a.IsConst() && a.Val == 0 {
			return p.True
		}
		if b.IsConst() && a.umax() <= b.Val {
			return p.True
		}
		if a.IsConst() && a.Val > b.umax() {
			return p.False
		}
	case OpSlt, OpSle:
		// if both are provably non-negative, use unsigned compare (enables folding)
		if a.umax() <= mask(a.W)>>1 && b.umax() <= mask(b.W)>>1 {
			if op == OpSlt {
				return p.Cmp(OpUlt, a, b)
			}
			return p.Cmp(OpUle, a, b)
		}
	}
	return p.mk(&Term{Op: op, W: 0, Args: []*Term{a, b}})
}

func (p *Pool) BNot(a *Term) *Term {
	if a.W != 0 {
		panic("BNot on non-bool")
	}
	if a.IsConst() {
		return p.Bool(a.Val == 0)
	}
	if a.Op == OpBNot {
		return a.Args[0]
	}
	return p.mk(&Term{Op: OpBNot, W: 0, Args: []*Term{a}})
}

func (p *Pool) BAnd(a, b *Term) *Term {
	if a.IsConst() {
		if a.Val == 1 {
			return b
		}
		return a
	}
	if b.IsConst() {
		if b.Val == 1 {
			return a
		}
		return b
	}
	if a == b {
		return a
	}
	return p.mk(&Term{Op: OpBAnd, W: 0, Args: []*Term{a, b}})
}

func (p *Pool) BOr(a, b *Term) *Term {
	if a.IsConst() {
		if a.Val == 0 {
			return b
		}
		return a
	}
	if b.IsConst() {
		if b.Val == 0 {
			return a
		}
		return b
	}
	if a == b {
		return a
	}
	return p.mk(&Term{Op: OpBOr, W: 0, Args: []*Term{a, b}})
}

func (p *Pool) Ite(c, a, b *Term) *Term {
	if c.IsConst() {
		if c.Val == 1 {
			return a
		}
		return b
	}
	if a == b {
		return a
	}
	if a.W == 0 {
		if a.IsTrue() && b.IsFalse() {
			return c
		}
		if a.IsFalse() && b.IsTrue() {
			return p.BNot(c)
		}
		if a.IsTrue() {
			return p.BOr(c, b)
		}
		if b.IsFalse() {
			return p.BAnd(c, a)
		}
	}
	return p.mk(&Term{Op: OpIte, W: a.W, Args: []*Term{c, a, b}})
}

func (p *Pool) Extract(a *Term, hi, lo int) *Term {
	w := hi - lo + 1
	if lo == 0 && w == a.W {
		return a
	}
	if a.IsConst() {
		return p.BV(a.Val>>uint(lo), w)
	}
	if a.Op == OpZExt || a.Op == OpSExt {
		in := a.Args[0]
		if hi < in.W {
			return p.Extract(in, hi, lo)
		}
		if a.Op == OpZExt && lo >= in.W {
			return p.BV(0, w)
		}
	}
	if a.Op == OpConcat {
		lw := a.Args[1].W
		if hi < lw {
			return p.Extract(a.Args[1], hi, lo)
		}
		if lo >= lw {
			return p.Extract(a.Args[0], hi-lw, lo-lw)
		}
	}
	// extract of or/and with low bits: push inside for byte extraction patterns
	if (a.Op == OpOr || a.Op == OpAnd || a.Op == OpXor) && lo == 0 {
		return p.Bin(a.Op, p.Extract(a.Args[0], hi, lo), p.Extract(a.Args[1], hi, lo))
	}
	if a.Op == OpShl && a.Args[1].IsConst() && lo == 0 {
		s := int(a.Args[1].Val)
		if s > hi {
			return p.BV(0, w)
		}
	}
	if a.Op == OpLShr && a.Args[1].IsConst() {
		s := int(a.Args[1].Val)
		if hi+s < a.W {
			return p.Extract(a.Args[0], hi+s, lo+s)
		}
	}
	return p.mk(&Term{Op: OpExtract, W: w, Args: []*Term{a}, Hi: hi, Lo: lo})
}

func (p *Pool) ZExt(a *Term, w int) *Term {
	if w == a.W {
		return a
	}
	if w < a.W {
		return p.Extract(a, w-1, 0)
	}
	if a.IsConst() {
		return p.BV(a.Val, w)
	}
	if a.Op == OpZExt {
		return p.ZExt(a.Args[0], w)
	}
	return p.mk(&Term{Op: OpZExt, W: w, Args: []*Term{a}})
}

func (p *Pool) SExt(a *Term, w int) *Term {
	if w == a.W {
		return a
	}
	if w < a.W {
		return p.Extract(a, w-1, 0)
	}
	if a.IsConst() {
		return p.BV(uint64(sext64(a.Val, a.W)), w)
	}
	if a.umax() <= mask(a.W)>>1 {
		return p.ZExt(a, w)
	}
	return p.mk(&Term{Op: OpSExt, W: w, Args: []*Term{a}})
}

func (p *Pool) Concat(hi, lo *Term) *Term {
	w := hi.W + lo.W
	if hi.IsConst() && lo.IsConst() {
		return p.BV(hi.Val<<uint(lo.W)|lo.Val, w)
	}
	if hi.IsConst() && hi.Val == 0 {
		return p.ZExt(lo, w)
	}
	return p.mk(&Term{Op: OpConcat, W: w, Args: []*Term{hi, lo}})
}

func (p *Pool) Select(arr, idx *Term) *Term {
	// read-over-write with concrete/identical indices
	for arr.Op == OpStore {
		si := arr.Args[1]
		if si == idx {
			return arr.Args[2]
		}
		if si.IsConst() && idx.IsConst() {
			arr = arr.Args[0]
			continue
		}
		break
	}
	if arr.Op == OpConstArr {
		return arr.Args[0]
	}
	return p.mk(&Term{Op: OpSelect, W: 8, Args: []*Term{arr, idx}})
}

func (p *Pool) Store(arr, idx, v *Term) *Term {
	return p.mk(&Term{Op: OpStore, W: ArrW, Args: []*Term{arr, idx, v}})
}

func (p *Pool) ConstArr(v *Term) *Term {
	return p.mk(&Term{Op: OpConstArr, W: ArrW, Args: []*Term{v}})
}

// ---------------------------------------------------------------------------
// evaluation under a model (variables absent from the model read as 0)

type Model map[string]uint64

func (t *Term) Eval(m Model, memo map[*Term]uint64) uint64 {
	if t.W == ArrW {
		panic("Eval of array term")
	}
	if v, ok := memo[t]; ok {
		return v
	}
	var r uint64
	switch t.Op {
	case OpConst:
		r = t.Val
	case OpVar:
		r = m[t.Name] & mask1(t.W)
	case OpAdd, OpSub, OpMul, OpUDiv, OpSDiv, OpURem, OpSRem, OpAnd, OpOr, OpXor, OpShl, OpLShr, OpAShr:
		r = evalBin(t.Op, t.W, t.Args[0].Eval(m, memo), t.Args[1].Eval(m, memo))
	case OpNot:
		r = ^t.Args[0].Eval(m, memo) & mask(t.W)
	case OpNeg:
		r = -t.Args[0].Eval(m, memo) & mask(t.W)
	case OpConcat:
		r = t.Args[0].Eval(m, memo)<<uint(t.Args[1].W) | t.Args[1].Eval(m, memo)
	case OpExtract:
		r = (t.Args[0].Eval(m, memo) >> uint(t.Lo)) & mask(t.W)
	case OpZExt:
		r = t.Args[0].Eval(m, memo)
	case OpSExt:
		r = uint64(sext64(t.Args[0].Eval(m, memo), t.Args[0].W)) & mask(t.W)
	case OpIte:
		if t.Args[0].Eval(m, memo) != 0 {
			r = t.Args[1].Eval(m, memo)
		} else {
			r = t.Args[2].Eval(m, memo)
		}
	case OpEq, OpUlt, OpUle, OpSlt, OpSle:
		a, b := t.Args[0], t.Args[1]
		if evalCmp(t.Op, a.W, a.Eval(m, memo), b.Eval(m, memo)) {
			r = 1
		}
	case OpBNot:
		r = 1 - t.Args[0].Eval(m, memo)
	case OpBAnd:
		r = t.Args[0].Eval(m, memo) & t.Args[1].Eval(m, memo)
	case OpBOr:
		r = t.Args[0].Eval(m, memo) | t.Args[1].Eval(m, memo)
	case OpSelect:
		r = evalSelect(t.Args[0], t.Args[1].Eval(m, memo), m, memo)
	default:
		panic(fmt.Sprintf("Eval: op %d", t.Op))
	}
	memo[t] = r
	return r
}

func mask1(w int) uint64 {
	if w == 0 {
		return 1
	}
	return mask(w)
}

func evalSelect(arr *Term, idx uint64, m Model, memo map[*Term]uint64) uint64 {
	for {
		switch arr.Op {
		case OpStore:
			if arr.Args[1].Eval(m, memo) == idx {
				return arr.Args[2].Eval(m, memo)
			}
			arr = arr.Args[0]
		case OpConstArr:
			return arr.Args[0].Eval(m, memo)
		case OpVar:
			return m[fmt.Sprintf("%s[%d]", arr.Name, idx)] & 0xff
		case OpIte:
			if arr.Args[0].Eval(m, memo) != 0 {
				arr = arr.Args[1]
			} else {
				arr = arr.Args[2]
			}
		default:
			panic("evalSelect")
		}
	}
}

// ---------------------------------------------------------------------------
// SMT-LIB printing

func sortStr(w int) string {
	switch {
	case w == 0:
		return "Bool"
	case w == ArrW:
		return "(Array (_ BitVec 64) (_ BitVec 8))"
	}
	return fmt.Sprintf("(_ BitVec %d)", w)
}

var opNames = map[Op]string{
	OpAdd: "bvadd", OpSub: "bvsub", OpMul: "bvmul", OpUDiv: "bvudiv", OpSDiv: "bvsdiv",
	OpURem: "bvurem", OpSRem: "bvsrem", OpAnd: "bvand", OpOr: "bvor", OpXor: "bvxor",
	OpShl: "bvshl", OpLShr: "bvlshr", OpAShr: "bvashr", OpNot: "bvnot", OpNeg: "bvneg",
	OpConcat: "concat", OpIte: "ite", OpEq: "=", OpUlt: "bvult", OpUle: "bvule",
	OpSlt: "bvslt", OpSle: "bvsle", OpBNot: "not", OpBAnd: "and", OpBOr: "or",
	OpSelect: "select", OpStore: "store",
}

func smtName(s string) string {
	return "|" + strings.NewReplacer("|", "_", "\\", "_").Replace(s) + "|"
}

// Printer prints terms, sharing sub-DAGs through let-bindings, and collects
// the variables that occur so they can be declared.
type Printer struct {
	vars map[string]int // name -> width; filled while printing
}

func (pr *Printer) Print(t *Term) string {
	refs := map[*Term]int{}
	var count func(t *Term)
	count = func(t *Term) {
		refs[t]++
		if refs[t] > 1 {
			return
		}
		for _, a := range t.Args {
			count(a)
		}
	}
	count(t)
	names := map[*Term]string{}
	var binds []string
	var rec func(t *Term) string
	rec = func(t *Term) string {
		if n, ok := names[t]; ok {
			return n
		}
		var s string
		switch t.Op {
		case OpConst:
			if t.W == 0 {
				if t.Val == 1 {
					return "true"
				}
				return "false"
			}
			return fmt.Sprintf("(_ bv%d %d)", t.Val, t.W)
		case OpVar:
			if pr.vars != nil {
				pr.vars[t.Name] = t.W
			}
			return smtName(t.Name)
		case OpExtract:
			s = fmt.Sprintf("((_ extract %d %d) %s)", t.Hi, t.Lo, rec(t.Args[0]))
		case OpZExt:
			s = fmt.Sprintf("((_ zero_extend %d) %s)", t.W-t.Args[0].W, rec(t.Args[0]))
		case OpSExt:
			s = fmt.Sprintf("((_ sign_extend %d) %s)", t.W-t.Args[0].W, rec(t.Args[0]))
		case OpConstArr:
			s = fmt.Sprintf("((as const %s) %s)", sortStr(ArrW), rec(t.Args[0]))
		default:
			var sb strings.Builder
			sb.WriteByte('(')
			sb.WriteString(opNames[t.Op])
			for _, a := range t.Args {
				sb.WriteByte(' ')
				sb.WriteString(rec(a))
			}
			sb.WriteByte(')')
			s = sb.String()
		}
		if refs[t] > 1 {
			n := fmt.Sprintf("?l%d", len(binds))
			binds = append(binds, fmt.Sprintf("(let ((%s %s)) ", n, s))
			names[t] = n
			return n
		}
		return s
	}
	body := rec(t)
	if len(binds) == 0 {
		return body
	}
	return strings.Join(binds, "") + body + strings.Repeat(")", len(binds))
}

func (t *Term) String() string {
	pr := &Printer{}
	return pr.Print(t)
}
