package main

// Value model of the symbolic interpreter (structure follows x/tools
// go/ssa/interp; scalars are SMT terms).
//
//	bool, all integers   *Term (W==0 bool, else bit-vector of the type's width)
//	string               Str (concrete length; bytes may be symbolic)
//	pointer              *Value (cell) | *ArrPtr (element of a solver-array byte object)
//	struct, array        Struct, Array (value semantics: copied on load/store)
//	slice                Slice (backing cells + symbolic off/len/cap)
//	map, chan            *Map, *Chan
//	interface            Iface{dynamic type, value}
//	func                 *ssa.Function | *Closure | *ssa.Builtin
//	tuple                Tuple

import (
	"fmt"
	"go/types"
	"strings"

	"golang.org/x/tools/go/ssa"
)

type Value interface{}

type Struct []Value
type Array []Value
type Tuple []Value

type Slice struct {
	data []Value // whole backing object (cells); nil for a nil slice
	arr  *ArrObj // alternatively: solver-array backed byte object
	off  *Term   // BV64
	ln   *Term
	cp   *Term
}

func (s Slice) isNil() bool { return s.data == nil && s.arr == nil }

// ArrObj is a byte object whose contents live in one SMT array term.
type ArrObj struct {
	name string
	arr  *Term // current contents
	size int64 // allocated size (concrete)
}

type ArrPtr struct {
	obj *ArrObj
	idx *Term
}

type Str struct {
	s   string
	sym []*Term // non-nil: symbolic bytes (len(sym) is the length)
}

func (s Str) Len() int {
	if s.sym != nil {
		return len(s.sym)
	}
	return len(s.s)
}

func (s Str) At(p *Pool, i int) *Term {
	if s.sym != nil {
		return s.sym[i]
	}
	return p.BV(uint64(s.s[i]), 8)
}

func (s Str) Concrete() (string, bool) {
	if s.sym == nil {
		return s.s, true
	}
	b := make([]byte, len(s.sym))
	for i, t := range s.sym {
		if !t.IsConst() {
			return "", false
		}
		b[i] = byte(t.Val)
	}
	return string(b), true
}

func mkStr(p *Pool, bs []*Term) Str {
	allc := true
	for _, t := range bs {
		if !t.IsConst() {
			allc = false
			break
		}
	}
	if allc {
		b := make([]byte, len(bs))
		for i, t := range bs {
			b[i] = byte(t.Val)
		}
		return Str{s: string(b)}
	}
	if bs == nil {
		bs = []*Term{}
	}
	return Str{sym: bs}
}

type Iface struct {
	t types.Type
	v Value
}

type Closure struct {
	fn  *ssa.Function
	env []Value
}

type Float struct{ f float64 }

type mapEnt struct {
	k, v Value
}

type Map struct {
	kt   types.Type
	ents []*mapEnt
	cell Value // stands for the whole map in the race detector
}

type Chan struct {
	closed bool
	buf    []Value
	cap    int
	id     int
}

type mapIter struct {
	m    *Map
	ents []*mapEnt // snapshot
	i    int
}

type strIter struct {
	s Str
	i int
}

type targetPanic struct{ v Value }

// ---------------------------------------------------------------------------

func intInfo(t types.Type) (w int, signed bool, ok bool) {
	b, isb := t.Underlying().(*types.Basic)
	if !isb {
		return 0, false, false
	}
	switch b.Kind() {
	case types.Bool, types.UntypedBool:
		return 0, false, true
	case types.Int, types.Int64, types.UntypedInt:
		return 64, true, true
	case types.Int8:
		return 8, true, true
	case types.Int16:
		return 16, true, true
	case types.Int32, types.UntypedRune:
		return 32, true, true
	case types.Uint, types.Uint64, types.Uintptr:
		return 64, false, true
	case types.Uint8:
		return 8, false, true
	case types.Uint16:
		return 16, false, true
	case types.Uint32:
		return 32, false, true
	}
	return 0, false, false
}

func isString(t types.Type) bool {
	b, ok := t.Underlying().(*types.Basic)
	return ok && b.Info()&types.IsString != 0
}

func isFloat(t types.Type) bool {
	b, ok := t.Underlying().(*types.Basic)
	return ok && b.Info()&(types.IsFloat|types.IsComplex) != 0
}

func (e *Engine) zero(t types.Type) Value {
	p := e.pool
	switch t := t.(type) {
	case *types.Basic:
		if t.Kind() == types.UntypedNil {
			panic("untyped nil has no zero value")
		}
		if t.Kind() == types.UnsafePointer {
			return (*Value)(nil)
		}
		if w, _, ok := intInfo(t); ok {
			if w == 0 {
				return p.False
			}
			return p.BV(0, w)
		}
		if isString(t) {
			return Str{}
		}
		if isFloat(t) {
			return Float{0}
		}
		panic(fmt.Sprintf("zero: basic %v", t))
	case *types.Pointer:
		return (*Value)(nil)
	case *types.Array:
		a := make(Array, t.Len())
		for i := range a {
			a[i] = e.zero(t.Elem())
		}
		return a
	case *types.Named, *types.Alias:
		return e.zero(t.Underlying())
	case *types.Interface:
		return Iface{}
	case *types.Slice:
		return Slice{off: p.BV(0, 64), ln: p.BV(0, 64), cp: p.BV(0, 64)}
	case *types.Struct:
		s := make(Struct, t.NumFields())
		for i := range s {
			s[i] = e.zero(t.Field(i).Type())
		}
		return s
	case *types.Tuple:
		if t.Len() == 1 {
			return e.zero(t.At(0).Type())
		}
		s := make(Tuple, t.Len())
		for i := range s {
			s[i] = e.zero(t.At(i).Type())
		}
		return s
	case *types.Chan:
		return (*Chan)(nil)
	case *types.Map:
		return (*Map)(nil)
	case *types.Signature:
		return (*ssa.Function)(nil)
	case *types.TypeParam:
		panic(inconclusive{"type parameter reached"})
	}
	panic(fmt.Sprintf("zero: unexpected %T", t))
}

func copyVal(v Value) Value {
	switch v := v.(type) {
	case Struct:
		c := make(Struct, len(v))
		for i, x := range v {
			c[i] = copyVal(x)
		}
		return c
	case Array:
		c := make(Array, len(v))
		for i, x := range v {
			c[i] = copyVal(x)
		}
		return c
	}
	return v
}

func (e *Engine) constValue(c *ssa.Const) Value {
	p := e.pool
	if c.Value == nil {
		return e.zero(c.Type())
	}
	t := c.Type()
	if w, signed, ok := intInfo(t); ok {
		if w == 0 {
			return p.Bool(constantBool(c))
		}
		if signed {
			return p.BV(uint64(c.Int64()), w)
		}
		return p.BV(c.Uint64(), w)
	}
	if isString(t) {
		return Str{s: constantString(c)}
	}
	if isFloat(t) {
		return Float{c.Float64()}
	}
	panic(fmt.Sprintf("constValue: %v", c))
}

// equals returns the term for x == y at static type t.
func (e *Engine) equals(t types.Type, x, y Value) *Term {
	p := e.pool
	switch x := x.(type) {
	case *Term:
		return p.Cmp(OpEq, x, y.(*Term))
	case Str:
		return e.strEq(x, y.(Str))
	case *Value:
		return p.Bool(x == y.(*Value))
	case *ArrPtr:
		yp, ok := y.(*ArrPtr)
		if !ok {
			return p.False
		}
		if x == nil || yp == nil {
			return p.Bool(x == yp)
		}
		if x.obj != yp.obj {
			return p.False
		}
		return p.Cmp(OpEq, x.idx, yp.idx)
	case *rtypeObj:
		return p.Bool(types.Identical(x.t, y.(*rtypeObj).t))
	case *Map:
		return p.Bool(x == y.(*Map))
	case *Chan:
		return p.Bool(x == y.(*Chan))
	case Float:
		return p.Bool(x.f == y.(Float).f)
	case Iface:
		yi := y.(Iface)
		if x.t == nil || yi.t == nil {
			return p.Bool(x.t == nil && yi.t == nil)
		}
		if !types.Identical(x.t, yi.t) {
			return p.False
		}
		if !types.Comparable(x.t) {
			panic(targetPanic{Iface{types.Typ[types.String], Str{s: "runtime error: comparing uncomparable type " + x.t.String()}}})
		}
		return e.equals(x.t, x.v, yi.v)
	case Struct:
		ys := y.(Struct)
		st := t.Underlying().(*types.Struct)
		r := p.True
		for i := range x {
			if st.Field(i).Name() == "_" {
				continue
			}
			r = p.BAnd(r, e.equals(st.Field(i).Type(), x[i], ys[i]))
		}
		return r
	case Array:
		ya := y.(Array)
		at := t.Underlying().(*types.Array)
		r := p.True
		for i := range x {
			r = p.BAnd(r, e.equals(at.Elem(), x[i], ya[i]))
		}
		return r
	case *ssa.Function, *Closure, *ssa.Builtin, Slice:
		panic(fmt.Sprintf("equals: uncomparable %T", x))
	}
	panic(fmt.Sprintf("equals: unexpected %T", x))
}

func (e *Engine) strEq(a, b Str) *Term {
	p := e.pool
	if a.Len() != b.Len() {
		return p.False
	}
	if a.sym == nil && b.sym == nil {
		return p.Bool(a.s == b.s)
	}
	r := p.True
	for i := 0; i < a.Len(); i++ {
		r = p.BAnd(r, p.Cmp(OpEq, a.At(p, i), b.At(p, i)))
		if r.IsFalse() {
			return r
		}
	}
	return r
}

// strLess returns the term for a < b (lexicographic).
func (e *Engine) strLess(a, b Str) *Term {
	p := e.pool
	n := a.Len()
	if b.Len() < n {
		n = b.Len()
	}
	// build from the end: less_i = a[i]<b[i] || (a[i]==b[i] && less_{i+1})
	r := p.Bool(a.Len() < b.Len())
	for i := n - 1; i >= 0; i-- {
		x, y := a.At(p, i), b.At(p, i)
		r = p.BOr(p.Cmp(OpUlt, x, y), p.BAnd(p.Cmp(OpEq, x, y), r))
	}
	return r
}

func isNilValue(v Value) bool {
	switch v := v.(type) {
	case *Value:
		return v == nil
	case *ArrPtr:
		return v == nil
	case *Map:
		return v == nil
	case *Chan:
		return v == nil
	case Slice:
		return v.isNil()
	case Iface:
		return v.t == nil
	case *ssa.Function:
		return v == nil
	case *Closure:
		return v == nil
	case *ssa.Builtin:
		return v == nil
	}
	return false
}

// describe renders a value for debugging / observation logs.
func describe(v Value) string {
	switch v := v.(type) {
	case nil:
		return "<nil>"
	case *Term:
		if v.IsConst() {
			if v.W == 0 {
				return fmt.Sprint(v.Val == 1)
			}
			return fmt.Sprint(v.Val)
		}
		return "sym:" + v.String()
	case Str:
		if s, ok := v.Concrete(); ok {
			return fmt.Sprintf("%q", s)
		}
		return fmt.Sprintf("symstr/%d", v.Len())
	case Struct:
		var parts []string
		for _, f := range v {
			parts = append(parts, describe(f))
		}
		return "{" + strings.Join(parts, ",") + "}"
	case Array:
		return fmt.Sprintf("array/%d", len(v))
	case Slice:
		return fmt.Sprintf("slice(len=%s)", describe(v.ln))
	case Iface:
		if v.t == nil {
			return "nil-iface"
		}
		return fmt.Sprintf("iface(%s)", v.t)
	case *Value:
		if v == nil {
			return "nil-ptr"
		}
		return "ptr"
	}
	return fmt.Sprintf("%T", v)
}
