package main

// Term-level models of the search / comparison helpers of packages bytes and
// strings (and of internal/bytealg, which is assembly in the real build).
//
// Why they exist: interpreted from their SSA over symbolic bytes these helpers
// fork once per byte (bytes.IndexAny builds an ASCII bit set and indexes it with
// the symbolic byte, strings.Index falls into bytealg assembly), so a harmless
// re-write of `bytes.IndexByte(t,'#') == -1 && bytes.IndexByte(t,'+') == -1`
// into `!bytes.ContainsAny(t, "#+")` made a check explode instead of decide.
// Each model returns ONE term (an ite-chain over the concrete positions of the
// operands; lengths are concrete in this engine), so no path is forked.
// The models follow the documented results of the functions for arbitrary
// bytes; the rune-oriented ones (IndexAny, ContainsAny, IndexRune, ContainsRune)
// are only used when the characters searched for are concrete ASCII - then
// byte-wise and rune-wise search coincide (an ASCII byte never occurs inside a
// multi-byte UTF-8 sequence, and invalid UTF-8 decodes to U+FFFD, which is not
// ASCII) - otherwise the real function body is interpreted as before.
// They are part of the trusted base and are cross-checked like everything else:
// every explored path's model is re-run through the natively compiled code.


import (
	"crypto/md5"
	"crypto/sha1"
	"crypto/sha256"
	"hash/crc32"
)

type byteSeq struct {
	n  int
	at func(i int) *Term
}

func (th *Thread) seq(v Value, what string) byteSeq {
	p := th.eng.pool
	switch s := v.(type) {
	case Str:
		return byteSeq{s.Len(), func(i int) *Term { return s.At(p, i) }}
	case Slice:
		if s.isNil() {
			return byteSeq{0, nil}
		}
		n := int(th.eng.path.Concretize(s.ln, what+" len"))
		return byteSeq{n, func(i int) *Term { return th.byteAt(s, uint64(i)) }}
	}
	panic(inconclusive{"byte sequence expected in " + what})
}

func (p *Pool) i64(v int) *Term { return p.BV(uint64(int64(v)), 64) }

// eqAt: the bytes of sep occur in s at position i
func seqEqAt(p *Pool, s byteSeq, i int, sep byteSeq) *Term {
	r := p.Bool(true)
	for j := 0; j < sep.n; j++ {
		r = p.BAnd(r, p.Cmp(OpEq, s.at(i+j), sep.at(j)))
	}
	return r
}

// first / last position at which pred holds, -1 if none
func firstPos(p *Pool, n int, pred func(i int) *Term) *Term {
	r := p.i64(-1)
	for i := n - 1; i >= 0; i-- {
		r = p.Ite(pred(i), p.i64(i), r)
	}
	return r
}

func lastPos(p *Pool, n int, pred func(i int) *Term) *Term {
	r := p.i64(-1)
	for i := 0; i < n; i++ {
		r = p.Ite(pred(i), p.i64(i), r)
	}
	return r
}

func seqIndex(p *Pool, s, sep byteSeq) *Term {
	if sep.n > s.n {
		return p.i64(-1)
	}
	return firstPos(p, s.n-sep.n+1, func(i int) *Term { return seqEqAt(p, s, i, sep) })
}

func seqLastIndex(p *Pool, s, sep byteSeq) *Term {
	if sep.n > s.n {
		return p.i64(-1)
	}
	return lastPos(p, s.n-sep.n+1, func(i int) *Term { return seqEqAt(p, s, i, sep) })
}

func seqEqual(p *Pool, a, b byteSeq) *Term {
	if a.n != b.n {
		return p.Bool(false)
	}
	return seqEqAt(p, a, 0, b)
}

// three-way lexicographic comparison: -1, 0, +1
func seqCompare(p *Pool, a, b byteSeq) *Term {
	m := a.n
	if b.n < m {
		m = b.n
	}
	var r *Term
	switch {
	case a.n < b.n:
		r = p.i64(-1)
	case a.n > b.n:
		r = p.i64(1)
	default:
		r = p.i64(0)
	}
	for i := m - 1; i >= 0; i-- {
		x, y := a.at(i), b.at(i)
		r = p.Ite(p.Cmp(OpUlt, x, y), p.i64(-1), p.Ite(p.Cmp(OpUlt, y, x), p.i64(1), r))
	}
	return r
}

// asciiSet: the concrete ASCII characters of chars, or ok=false
func asciiSet(chars byteSeq) ([]byte, bool) {
	out := make([]byte, 0, chars.n)
	for i := 0; i < chars.n; i++ {
		t := chars.at(i)
		if !t.IsConst() || t.Val >= 0x80 {
			return nil, false
		}
		out = append(out, byte(t.Val))
	}
	return out, true
}

func inSet(p *Pool, c *Term, set []byte) *Term {
	r := p.Bool(false)
	for _, b := range set {
		r = p.BOr(r, p.Cmp(OpEq, c, p.BV(uint64(b), 8)))
	}
	return r
}

// non-overlapping count of a non-empty separator
func seqCount(p *Pool, s, sep byteSeq) *Term {
	// scan left to right; `free` = first position a new match may start at
	cnt := p.i64(0)
	free := p.i64(0)
	for i := 0; i+sep.n <= s.n; i++ {
		m := p.BAnd(seqEqAt(p, s, i, sep), p.BNot(p.Cmp(OpSlt, p.i64(i), free)))
		cnt = p.Ite(m, p.Bin(OpAdd, cnt, p.i64(1)), cnt)
		free = p.Ite(m, p.i64(i+sep.n), free)
	}
	return cnt
}

// fallThrough interprets the function's own body (used when a model's side condition does not hold)
func fallThrough(fr *frame, fn string, a []Value) Value { return useBody{} }

// useBody is what an intrinsic returns when its side condition does not hold: callSSA then
// interprets the function's real body.
type useBody struct{}

func init() {
	reg := func(names []string, f intrinsic) {
		for _, n := range names {
			intrinsics[n] = f
		}
	}
	bothPkgs := func(name string) []string { return []string{"bytes." + name, "strings." + name} }

	reg(append(bothPkgs("IndexByte"), "internal/bytealg.IndexByte", "internal/bytealg.IndexByteString"), func(fr *frame, a []Value) Value {
		p := fr.th.eng.pool
		s := fr.th.seq(a[0], "IndexByte")
		c := a[1].(*Term)
		return firstPos(p, s.n, func(i int) *Term { return p.Cmp(OpEq, s.at(i), c) })
	})
	reg(bothPkgs("LastIndexByte"), func(fr *frame, a []Value) Value {
		p := fr.th.eng.pool
		s := fr.th.seq(a[0], "LastIndexByte")
		c := a[1].(*Term)
		return lastPos(p, s.n, func(i int) *Term { return p.Cmp(OpEq, s.at(i), c) })
	})
	reg(append(bothPkgs("Index"), "internal/bytealg.Index", "internal/bytealg.IndexString"), func(fr *frame, a []Value) Value {
		return seqIndex(fr.th.eng.pool, fr.th.seq(a[0], "Index"), fr.th.seq(a[1], "Index sep"))
	})
	reg(bothPkgs("LastIndex"), func(fr *frame, a []Value) Value {
		return seqLastIndex(fr.th.eng.pool, fr.th.seq(a[0], "LastIndex"), fr.th.seq(a[1], "LastIndex sep"))
	})
	reg(bothPkgs("Contains"), func(fr *frame, a []Value) Value {
		p := fr.th.eng.pool
		return p.BNot(p.Cmp(OpSlt, seqIndex(p, fr.th.seq(a[0], "Contains"), fr.th.seq(a[1], "Contains sep")), p.i64(0)))
	})
	reg(bothPkgs("HasPrefix"), func(fr *frame, a []Value) Value {
		p := fr.th.eng.pool
		s, pre := fr.th.seq(a[0], "HasPrefix"), fr.th.seq(a[1], "HasPrefix prefix")
		if pre.n > s.n {
			return p.Bool(false)
		}
		return seqEqAt(p, s, 0, pre)
	})
	reg(bothPkgs("HasSuffix"), func(fr *frame, a []Value) Value {
		p := fr.th.eng.pool
		s, suf := fr.th.seq(a[0], "HasSuffix"), fr.th.seq(a[1], "HasSuffix suffix")
		if suf.n > s.n {
			return p.Bool(false)
		}
		return seqEqAt(p, s, s.n-suf.n, suf)
	})
	reg([]string{"bytes.Equal", "internal/bytealg.Equal"}, func(fr *frame, a []Value) Value {
		return seqEqual(fr.th.eng.pool, fr.th.seq(a[0], "Equal"), fr.th.seq(a[1], "Equal"))
	})
	reg([]string{"bytes.Compare", "strings.Compare", "internal/bytealg.Compare", "internal/bytealg.CompareString"}, func(fr *frame, a []Value) Value {
		return seqCompare(fr.th.eng.pool, fr.th.seq(a[0], "Compare"), fr.th.seq(a[1], "Compare"))
	})
	reg([]string{"internal/bytealg.Count", "internal/bytealg.CountString"}, func(fr *frame, a []Value) Value {
		p := fr.th.eng.pool
		s := fr.th.seq(a[0], "Count")
		c := a[1].(*Term)
		cnt := p.i64(0)
		for i := 0; i < s.n; i++ {
			cnt = p.Ite(p.Cmp(OpEq, s.at(i), c), p.Bin(OpAdd, cnt, p.i64(1)), cnt)
		}
		return cnt
	})
	reg(bothPkgs("Count"), func(fr *frame, a []Value) Value {
		s, sep := fr.th.seq(a[0], "Count"), fr.th.seq(a[1], "Count sep")
		if sep.n == 0 {
			return fallThrough(fr, "Count", a) // counts runes: the real body decides
		}
		return seqCount(fr.th.eng.pool, s, sep)
	})
	// rune-oriented searches: byte-wise when the characters are concrete ASCII
	reg(bothPkgs("IndexAny"), func(fr *frame, a []Value) Value {
		p := fr.th.eng.pool
		s := fr.th.seq(a[0], "IndexAny")
		set, ok := asciiSet(fr.th.seq(a[1], "IndexAny chars"))
		if !ok {
			return fallThrough(fr, "IndexAny", a)
		}
		return firstPos(p, s.n, func(i int) *Term { return inSet(p, s.at(i), set) })
	})
	reg(bothPkgs("LastIndexAny"), func(fr *frame, a []Value) Value {
		p := fr.th.eng.pool
		s := fr.th.seq(a[0], "LastIndexAny")
		set, ok := asciiSet(fr.th.seq(a[1], "LastIndexAny chars"))
		if !ok {
			return fallThrough(fr, "LastIndexAny", a)
		}
		return lastPos(p, s.n, func(i int) *Term { return inSet(p, s.at(i), set) })
	})
	reg(bothPkgs("ContainsAny"), func(fr *frame, a []Value) Value {
		p := fr.th.eng.pool
		s := fr.th.seq(a[0], "ContainsAny")
		set, ok := asciiSet(fr.th.seq(a[1], "ContainsAny chars"))
		if !ok {
			return fallThrough(fr, "ContainsAny", a)
		}
		r := p.Bool(false)
		for i := 0; i < s.n; i++ {
			r = p.BOr(r, inSet(p, s.at(i), set))
		}
		return r
	})
	runeASCII := func(v Value) (byte, bool) {
		t, ok := v.(*Term)
		if !ok || !t.IsConst() || t.Val >= 0x80 {
			return 0, false
		}
		return byte(t.Val), true
	}
	reg(bothPkgs("IndexRune"), func(fr *frame, a []Value) Value {
		p := fr.th.eng.pool
		c, ok := runeASCII(a[1])
		if !ok {
			return fallThrough(fr, "IndexRune", a)
		}
		s := fr.th.seq(a[0], "IndexRune")
		return firstPos(p, s.n, func(i int) *Term { return p.Cmp(OpEq, s.at(i), p.BV(uint64(c), 8)) })
	})
	reg(bothPkgs("ContainsRune"), func(fr *frame, a []Value) Value {
		p := fr.th.eng.pool
		c, ok := runeASCII(a[1])
		if !ok {
			return fallThrough(fr, "ContainsRune", a)
		}
		s := fr.th.seq(a[0], "ContainsRune")
		r := p.Bool(false)
		for i := 0; i < s.n; i++ {
			r = p.BOr(r, p.Cmp(OpEq, s.at(i), p.BV(uint64(c), 8)))
		}
		return r
	})
}

// Hash functions (assembly in the real build): computed with the real implementation when the input is
// concrete; a symbolic input is outside what the engine models (INCONCLUSIVE, never a guessed digest).
func (th *Thread) concreteBytes(v Value, what string) []byte {
	s := th.seq(v, what)
	out := make([]byte, s.n)
	for i := 0; i < s.n; i++ {
		t := s.at(i)
		if !t.IsConst() {
			panic(inconclusive{what + " of symbolic bytes"})
		}
		out[i] = byte(t.Val)
	}
	return out
}

func byteArray(p *Pool, b []byte) Value {
	out := make(Array, len(b))
	for i, x := range b {
		out[i] = p.BV(uint64(x), 8)
	}
	return out
}

func init() {
	intrinsics["crypto/sha256.Sum256"] = func(fr *frame, a []Value) Value {
		d := sha256.Sum256(fr.th.concreteBytes(a[0], "sha256.Sum256"))
		return byteArray(fr.th.eng.pool, d[:])
	}
	intrinsics["crypto/sha256.Sum224"] = func(fr *frame, a []Value) Value {
		d := sha256.Sum224(fr.th.concreteBytes(a[0], "sha256.Sum224"))
		return byteArray(fr.th.eng.pool, d[:])
	}
	intrinsics["crypto/sha1.Sum"] = func(fr *frame, a []Value) Value {
		d := sha1.Sum(fr.th.concreteBytes(a[0], "sha1.Sum"))
		return byteArray(fr.th.eng.pool, d[:])
	}
	intrinsics["crypto/md5.Sum"] = func(fr *frame, a []Value) Value {
		d := md5.Sum(fr.th.concreteBytes(a[0], "md5.Sum"))
		return byteArray(fr.th.eng.pool, d[:])
	}
	intrinsics["hash/crc32.ChecksumIEEE"] = func(fr *frame, a []Value) Value {
		return fr.th.eng.pool.BV(uint64(crc32.ChecksumIEEE(fr.th.concreteBytes(a[0], "crc32.ChecksumIEEE"))), 32)
	}
	intrinsics["crypto/internal/boring/sig.StandardCrypto"] = func(fr *frame, a []Value) Value { return nil }
	intrinsics["crypto/internal/boring/sig.BoringCrypto"] = func(fr *frame, a []Value) Value { return nil }
	intrinsics["crypto/internal/boring/sig.FIPSOnly"] = func(fr *frame, a []Value) Value { return nil }
}
