package main

import (
	"fmt"
	"go/token"
	"go/types"

	"golang.org/x/tools/go/ssa"
)

func (th *Thread) binop(op token.Token, t types.Type, x, y Value) Value {
	e := th.eng
	p := e.pool
	switch op {
	case token.EQL:
		return th.eqOrNil(t, x, y)
	case token.NEQ:
		return p.BNot(th.eqOrNil(t, x, y))
	}
	switch xv := x.(type) {
	case Str:
		yv := y.(Str)
		switch op {
		case token.ADD:
			if xv.sym == nil && yv.sym == nil {
				return Str{s: xv.s + yv.s}
			}
			var bs []*Term
			for i := 0; i < xv.Len(); i++ {
				bs = append(bs, xv.At(p, i))
			}
			for i := 0; i < yv.Len(); i++ {
				bs = append(bs, yv.At(p, i))
			}
			return mkStr(p, bs)
		case token.LSS:
			return e.strLess(xv, yv)
		case token.GTR:
			return e.strLess(yv, xv)
		case token.LEQ:
			return p.BNot(e.strLess(yv, xv))
		case token.GEQ:
			return p.BNot(e.strLess(xv, yv))
		}
	case Float:
		panic(inconclusive{"floating point arithmetic"})
	case *Term:
		yv := y.(*Term)
		w, signed, ok := intInfo(t)
		if !ok {
			panic(fmt.Sprintf("binop %v on type %v", op, t))
		}
		if w == 0 { // bool
			switch op {
			case token.AND, token.LAND:
				return p.BAnd(xv, yv)
			case token.OR, token.LOR:
				return p.BOr(xv, yv)
			}
			panic(fmt.Sprintf("bool binop %v", op))
		}
		switch op {
		case token.ADD:
			return p.Bin(OpAdd, xv, yv)
		case token.SUB:
			return p.Bin(OpSub, xv, yv)
		case token.MUL:
			return p.Bin(OpMul, xv, yv)
		case token.QUO, token.REM:
			th.check(p.BNot(p.Cmp(OpEq, yv, p.BV(0, w))), "runtime error: integer divide by zero")
			o := map[bool]map[token.Token]Op{true: {token.QUO: OpSDiv, token.REM: OpSRem}, false: {token.QUO: OpUDiv, token.REM: OpURem}}[signed][op]
			return p.Bin(o, xv, yv)
		case token.AND:
			return p.Bin(OpAnd, xv, yv)
		case token.OR:
			return p.Bin(OpOr, xv, yv)
		case token.XOR:
			return p.Bin(OpXor, xv, yv)
		case token.AND_NOT:
			return p.Bin(OpAnd, xv, p.Not(yv))
		case token.SHL, token.SHR:
			// y has its own width (and is checked non-negative if signed by the SSA builder)
			sh := th.shiftAmount(yv, w)
			switch {
			case op == token.SHL:
				return p.Bin(OpShl, xv, sh)
			case signed:
				return p.Bin(OpAShr, xv, sh)
			default:
				return p.Bin(OpLShr, xv, sh)
			}
		case token.LSS:
			if signed {
				return p.Cmp(OpSlt, xv, yv)
			}
			return p.Cmp(OpUlt, xv, yv)
		case token.LEQ:
			if signed {
				return p.Cmp(OpSle, xv, yv)
			}
			return p.Cmp(OpUle, xv, yv)
		case token.GTR:
			if signed {
				return p.Cmp(OpSlt, yv, xv)
			}
			return p.Cmp(OpUlt, yv, xv)
		case token.GEQ:
			if signed {
				return p.Cmp(OpSle, yv, xv)
			}
			return p.Cmp(OpUle, yv, xv)
		}
	}
	panic(fmt.Sprintf("binop %v on %T", op, x))
}

// shiftAmount converts a shift count of any width to width w, saturating at w.
func (th *Thread) shiftAmount(y *Term, w int) *Term {
	p := th.eng.pool
	if y.IsConst() {
		v := y.Val
		if v > uint64(w) {
			v = uint64(w)
		}
		return p.BV(v, w)
	}
	big := p.Cmp(OpUle, p.BV(uint64(w), y.W), y)
	var r *Term
	if y.W > w {
		r = p.Extract(y, w-1, 0)
	} else {
		r = p.ZExt(y, w)
	}
	return p.Ite(big, p.BV(uint64(w), w), r)
}

func (th *Thread) eqOrNil(t types.Type, x, y Value) *Term {
	e := th.eng
	p := e.pool
	// comparisons against nil for slices, funcs (the only legal ones)
	switch x.(type) {
	case Slice, *ssa.Function, *Closure, *ssa.Builtin:
		return p.Bool(isNilValue(x) && isNilValue(y))
	}
	switch y.(type) {
	case Slice, *ssa.Function, *Closure, *ssa.Builtin:
		return p.Bool(isNilValue(x) && isNilValue(y))
	}
	// pointer kinds may mix *Value and *ArrPtr nil
	if xp, ok := x.(*ArrPtr); ok {
		if yv, ok := y.(*Value); ok {
			return p.Bool(xp == nil && yv == nil)
		}
	}
	if xv, ok := x.(*Value); ok {
		if yp, ok := y.(*ArrPtr); ok {
			return p.Bool(xv == nil && yp == nil)
		}
	}
	return e.equals(t, x, y)
}

func (th *Thread) unop(instr *ssa.UnOp, x Value) Value {
	e := th.eng
	p := e.pool
	switch instr.Op {
	case token.ARROW:
		return th.chanRecv(x.(*Chan), instr.CommaOk, instr.X.Type().Underlying().(*types.Chan).Elem())
	case token.SUB:
		if f, ok := x.(Float); ok {
			return Float{-f.f}
		}
		return p.Neg(x.(*Term))
	case token.MUL:
		return th.load(instr.Type(), x)
	case token.NOT:
		return p.BNot(x.(*Term))
	case token.XOR:
		return p.Not(x.(*Term))
	}
	panic(fmt.Sprintf("unop %v", instr.Op))
}

func (th *Thread) conv(tdst, tsrc types.Type, x Value) Value {
	e := th.eng
	p := e.pool
	ud, us := tdst.Underlying(), tsrc.Underlying()
	if wd, _, okd := intInfo(ud); okd {
		if ws, ss, oks := intInfo(us); oks {
			xv := x.(*Term)
			if wd == 0 || ws == 0 {
				return xv
			}
			switch {
			case wd == ws:
				return xv
			case wd < ws:
				return p.Extract(xv, wd-1, 0)
			case ss:
				return p.SExt(xv, wd)
			default:
				return p.ZExt(xv, wd)
			}
		}
		if isFloat(us) {
			f := x.(Float).f
			return p.BV(uint64(int64(f)), wd)
		}
	}
	if isFloat(ud) {
		switch xv := x.(type) {
		case Float:
			return xv
		case *Term:
			if xv.IsConst() {
				_, ss, _ := intInfo(us)
				if ss {
					return Float{float64(sext64(xv.Val, xv.W))}
				}
				return Float{float64(xv.Val)}
			}
			panic(inconclusive{"symbolic int to float conversion"})
		}
	}
	if isString(ud) {
		switch xv := x.(type) {
		case Str:
			return xv
		case Slice: // []byte -> string
			if isByteSlice(us) {
				return th.bytesToStr(xv)
			}
			panic(inconclusive{"[]rune to string conversion"})
		case *Term: // integer -> string (rune)
			if xv.IsConst() {
				return Str{s: string(rune(sext64(xv.Val, xv.W)))}
			}
			panic(inconclusive{"symbolic rune to string conversion"})
		}
	}
	if sl, ok := ud.(*types.Slice); ok {
		if s, ok := x.(Str); ok {
			if b, ok := sl.Elem().Underlying().(*types.Basic); ok && b.Kind() == types.Uint8 {
				data := make([]Value, s.Len())
				for i := range data {
					data[i] = s.At(p, i)
				}
				n := p.BV(uint64(len(data)), 64)
				return Slice{data: data, off: p.BV(0, 64), ln: n, cp: n}
			}
			panic(inconclusive{"string to []rune conversion"})
		}
		return x
	}
	switch ud.(type) {
	case *types.Pointer, *types.Basic: // unsafe.Pointer conversions
		return x
	}
	panic(fmt.Sprintf("conv %v -> %v (%T)", tsrc, tdst, x))
}

func isByteSlice(t types.Type) bool {
	sl, ok := t.Underlying().(*types.Slice)
	if !ok {
		return false
	}
	b, ok := sl.Elem().Underlying().(*types.Basic)
	return ok && b.Kind() == types.Uint8
}

// sliceCells returns the cells [0,len) of a slice after concretising off/len.
func (th *Thread) sliceCells(s Slice, what string) []Value {
	e := th.eng
	if s.isNil() {
		return nil
	}
	if s.arr != nil {
		panic(inconclusive{"cell access to solver-array object: " + what})
	}
	n := e.path.Concretize(s.ln, what+" len")
	off := e.path.Concretize(s.off, what+" offset")
	return s.data[off : off+n : off+n]
}

func (th *Thread) bytesToStr(s Slice) Str {
	p := th.eng.pool
	if s.arr != nil {
		n := th.eng.path.Concretize(s.ln, "string(bytes) len")
		bs := make([]*Term, n)
		for i := range bs {
			bs[i] = p.Select(s.arr.arr, p.Bin(OpAdd, s.off, p.BV(uint64(i), 64)))
		}
		return mkStr(p, bs)
	}
	cells := th.sliceCells(s, "string(bytes)")
	bs := make([]*Term, len(cells))
	for i := range cells {
		th.eng.access(th, &cells[i], false)
		bs[i] = cells[i].(*Term)
	}
	return mkStr(p, bs)
}

// byteAt reads byte i of a byte slice (i concrete, in range).
func (th *Thread) byteAt(s Slice, i uint64) *Term {
	p := th.eng.pool
	if s.arr != nil {
		return p.Select(s.arr.arr, p.Bin(OpAdd, s.off, p.BV(i, 64)))
	}
	off := th.eng.path.Concretize(s.off, "byte offset")
	th.eng.access(th, &s.data[off+i], false)
	return s.data[off+i].(*Term)
}

func (th *Thread) callBuiltin(caller *frame, callpos token.Pos, fn *ssa.Builtin, args []Value) Value {
	e := th.eng
	p := e.pool
	switch fn.Name() {
	case "append":
		return th.doAppend(args[0].(Slice), args[1], fn)
	case "copy":
		return th.doCopy(args[0].(Slice), args[1])
	case "close":
		th.chanClose(args[0].(*Chan))
		return nil
	case "delete":
		th.mapDelete(args[0].(*Map), args[1])
		return nil
	case "print", "println":
		return nil
	case "len":
		switch x := args[0].(type) {
		case Str:
			return p.BV(uint64(x.Len()), 64)
		case Array:
			return p.BV(uint64(len(x)), 64)
		case *Value:
			return p.BV(uint64(len((*x).(Array))), 64)
		case Slice:
			return x.ln
		case *Map:
			if x == nil {
				return p.BV(0, 64)
			}
			e.access(th, &x.cell, false)
			return p.BV(uint64(len(x.ents)), 64)
		case *Chan:
			if x == nil {
				return p.BV(0, 64)
			}
			return p.BV(uint64(len(x.buf)), 64)
		}
		panic(fmt.Sprintf("len of %T", args[0]))
	case "cap":
		switch x := args[0].(type) {
		case Array:
			return p.BV(uint64(len(x)), 64)
		case *Value:
			return p.BV(uint64(len((*x).(Array))), 64)
		case Slice:
			return x.cp
		case *Chan:
			return p.BV(uint64(x.cap), 64)
		}
		panic(fmt.Sprintf("cap of %T", args[0]))
	case "min", "max":
		r := args[0].(*Term)
		_, signed, _ := intInfo(fn.Type().(*types.Signature).Results().At(0).Type())
		for _, a := range args[1:] {
			a := a.(*Term)
			op := OpUlt
			if signed {
				op = OpSlt
			}
			var c *Term
			if fn.Name() == "min" {
				c = p.Cmp(op, a, r)
			} else {
				c = p.Cmp(op, r, a)
			}
			r = p.Ite(c, a, r)
		}
		return r
	case "panic":
		panic(targetPanic{args[0]})
	case "recover":
		return th.doRecover(caller)
	case "ssa:wrapnilchk":
		recv := args[0]
		if isNilValue(recv) {
			th.goPanic("value method called using nil pointer")
		}
		return recv
	}
	panic(inconclusive{"unsupported builtin " + fn.Name()})
}

func (th *Thread) doRecover(caller *frame) Value {
	if caller != nil && !caller.panicking && caller.caller != nil && caller.caller.panicking {
		caller.caller.panicking = false
		pv := caller.caller.panic
		caller.caller.panic = nil
		switch pv := pv.(type) {
		case targetPanic:
			th.eng.event("recovered-panic", describePanic(pv.v))
			if iv, ok := pv.v.(Iface); ok {
				return iv
			}
			return Iface{types.Typ[types.String], Str{s: "panic"}}
		default:
			panic(pv)
		}
	}
	return Iface{}
}

func describePanic(v Value) string {
	if iv, ok := v.(Iface); ok {
		if s, ok := iv.v.(Str); ok {
			if c, ok := s.Concrete(); ok {
				return c
			}
		}
		return fmt.Sprintf("panic(%v)", iv.t)
	}
	return describe(v)
}

func (th *Thread) doAppend(s Slice, arg Value, fn *ssa.Builtin) Value {
	e := th.eng
	p := e.pool
	var add []Value
	switch a := arg.(type) {
	case Str:
		for i := 0; i < a.Len(); i++ {
			add = append(add, a.At(p, i))
		}
	case Slice:
		if a.arr != nil {
			if !e.path.FewValues(a.ln, 64) {
				return th.appendSymbolic(s, a)
			}
			n := e.path.Concretize(a.ln, "append source len")
			for i := uint64(0); i < n; i++ {
				add = append(add, th.byteAt(a, i))
			}
		} else {
			cells := th.sliceCells(a, "append source")
			for i := range cells {
				e.access(th, &cells[i], false)
				add = append(add, copyVal(cells[i]))
			}
		}
	default:
		panic(fmt.Sprintf("append arg %T", arg))
	}
	if len(add) == 0 {
		return s
	}
	if s.arr != nil {
		// append to a solver-array slice: always into a fresh object (growth policy: exact)
		n := s.ln
		e.narr++
		obj := &ArrObj{name: fmt.Sprintf("arr%d", e.narr), arr: s.arr.arr, size: -1}
		base := s.off
		for i, v := range add {
			obj.arr = p.Store(obj.arr, p.Bin(OpAdd, p.Bin(OpAdd, base, n), p.BV(uint64(i), 64)), v.(*Term))
		}
		nl := p.Bin(OpAdd, n, p.BV(uint64(len(add)), 64))
		return Slice{arr: obj, off: base, ln: nl, cp: nl}
	}
	n := e.path.Concretize(s.ln, "append dest len")
	c := e.path.Concretize(s.cp, "append dest cap")
	need := n + uint64(len(add))
	if !s.isNil() && need <= c {
		off := e.path.Concretize(s.off, "append dest offset")
		for i, v := range add {
			e.access(th, &s.data[off+n+uint64(i)], true)
			s.data[off+n+uint64(i)] = v
		}
		return Slice{data: s.data, off: s.off, ln: p.BV(need, 64), cp: s.cp}
	}
	// grow (Go-like policy: double small slices)
	newcap := need
	if c*2 > newcap {
		newcap = c * 2
	}
	data := make([]Value, newcap)
	var old []Value
	if !s.isNil() {
		old = th.sliceCells(s, "append dest")
	}
	for i := range old {
		e.access(th, &old[i], false)
		data[i] = copyVal(old[i])
	}
	copy(data[n:], add)
	if newcap > need {
		var z Value
		if len(add) > 0 {
			z = e.zeroLike(add[0])
		}
		for i := need; i < newcap; i++ {
			data[i] = copyVal(z)
		}
	}
	return Slice{data: data, off: p.BV(0, 64), ln: p.BV(need, 64), cp: p.BV(newcap, 64)}
}

// appendSymbolic: append(dst, src...) where src is a solver-array slice whose
// length has many feasible values: the result is a fresh solver-array object
// (dst's bytes, then src's bytes) of symbolic length.
func (th *Thread) appendSymbolic(dst, src Slice) Value {
	e := th.eng
	p := e.pool
	e.narr++
	var arr *Term
	var dn *Term
	if dst.arr != nil {
		panic(inconclusive{"append of a symbolic-length slice to a solver-array slice"})
	}
	// result[i] = dst[i] for i < len(dst); src[i-len(dst)] after that. With a
	// zero-filled fresh src (the only producer of such slices: make) the tail is src's array shifted;
	// we require src.off == 0 and take src's array with dst's bytes stored in front of a shifted view.
	dcells := th.sliceCells(dst, "append dest")
	dn = p.BV(uint64(len(dcells)), 64)
	if src.arr.arr.Op != OpConstArr {
		panic(inconclusive{"append of a symbolic-length slice that is not freshly zeroed"})
	}
	arr = src.arr.arr
	for i := range dcells {
		e.access(th, &dcells[i], false)
		arr = p.Store(arr, p.BV(uint64(i), 64), dcells[i].(*Term))
	}
	nl := p.Bin(OpAdd, dn, src.ln)
	obj := &ArrObj{name: fmt.Sprintf("arr%d", e.narr), arr: arr, size: -1}
	return Slice{arr: obj, off: p.BV(0, 64), ln: nl, cp: nl}
}

// zeroLike builds a zero value with the same shape as v.
func (e *Engine) zeroLike(v Value) Value {
	p := e.pool
	switch v := v.(type) {
	case *Term:
		if v.W == 0 {
			return p.False
		}
		return p.BV(0, v.W)
	case Str:
		return Str{}
	case Struct:
		s := make(Struct, len(v))
		for i := range v {
			s[i] = e.zeroLike(v[i])
		}
		return s
	case Array:
		s := make(Array, len(v))
		for i := range v {
			s[i] = e.zeroLike(v[i])
		}
		return s
	case Slice:
		return Slice{off: p.BV(0, 64), ln: p.BV(0, 64), cp: p.BV(0, 64)}
	case Iface:
		return Iface{}
	case *Value:
		return (*Value)(nil)
	case *Map:
		return (*Map)(nil)
	case *Chan:
		return (*Chan)(nil)
	case *ssa.Function, *Closure:
		return (*ssa.Function)(nil)
	case Float:
		return Float{}
	case *ArrPtr:
		return (*Value)(nil)
	}
	panic(fmt.Sprintf("zeroLike %T", v))
}

func (th *Thread) doCopy(dst Slice, src Value) Value {
	e := th.eng
	p := e.pool
	// Source and destination as (length term, element reader/writer). Cell-backed
	// operands have offset and length concretised (bounded by the object size);
	// solver-array operands keep symbolic offset and length.
	var sget func(i uint64) Value
	var sn *Term
	switch s := src.(type) {
	case Str:
		sn = p.BV(uint64(s.Len()), 64)
		sget = func(i uint64) Value { return s.At(p, int(i)) }
	case Slice:
		if s.arr != nil {
			sn = s.ln
			sget = func(i uint64) Value { return p.Select(s.arr.arr, p.Bin(OpAdd, s.off, p.BV(i, 64))) }
		} else {
			n := e.path.Concretize(s.ln, "copy source len")
			sn = p.BV(n, 64)
			if n > 0 {
				off := e.path.Concretize(s.off, "copy source offset")
				sget = func(i uint64) Value {
					e.access(th, &s.data[off+i], false)
					return copyVal(s.data[off+i])
				}
			}
		}
	}
	var dn *Term
	var dget func(i uint64) Value
	var dput func(i uint64, v Value)
	if dst.arr != nil {
		dn = dst.ln
		dget = func(i uint64) Value { return p.Select(dst.arr.arr, p.Bin(OpAdd, dst.off, p.BV(i, 64))) }
		dput = func(i uint64, v Value) {
			dst.arr.arr = p.Store(dst.arr.arr, p.Bin(OpAdd, dst.off, p.BV(i, 64)), v.(*Term))
		}
	} else {
		n := e.path.Concretize(dst.ln, "copy dest len")
		dn = p.BV(n, 64)
		if n > 0 {
			doff := e.path.Concretize(dst.off, "copy dest offset")
			dget = func(i uint64) Value { return dst.data[doff+i] }
			dput = func(i uint64, v Value) {
				e.access(th, &dst.data[doff+i], true)
				dst.data[doff+i] = v
			}
		}
	}
	if sn.IsConst() && dn.IsConst() {
		n := sn.Val
		if dn.Val < n {
			n = dn.Val
		}
		vals := make([]Value, n) // memmove semantics: read all, then write
		for i := uint64(0); i < n; i++ {
			vals[i] = sget(i)
		}
		for i := uint64(0); i < n; i++ {
			dput(i, vals[i])
		}
		return p.BV(n, 64)
	}
	// one length symbolic: copy under guards, bounded by the concrete length
	var bound uint64
	switch {
	case sn.IsConst():
		bound = sn.Val
	case dn.IsConst():
		bound = dn.Val
	default:
		// both symbolic (two solver-array operands): bound by the smaller provable maximum
		bound = sn.umax()
		if d := dn.umax(); d < bound {
			bound = d
		}
		if bound > 64 {
			panic(inconclusive{"copy between two solver-array slices of unbounded symbolic length"})
		}
	}
	n := p.Ite(p.Cmp(OpUlt, sn, dn), sn, dn)
	if bound == 0 {
		return p.BV(0, 64)
	}
	vals := make([]Value, bound)
	for i := uint64(0); i < bound; i++ {
		vals[i] = sget(i)
	}
	for i := uint64(0); i < bound; i++ {
		g := p.Cmp(OpUlt, p.BV(i, 64), n)
		if g.IsFalse() {
			break
		}
		dput(i, p.Ite(g, vals[i].(*Term), dget(i).(*Term)))
	}
	return n
}
